package main

import (
	"fmt"
	"io"
	"math/rand"
	"net/http"
	"net/url"
	"sort"
	"strings"

	"github.com/flamego/flamego"
)

// ---------------------------------------------------------------- regex ASTs
// (eps) (lit xHEX) (cls (r lo hi)...) (any) (cat a b) (alt a b) (star a) (plus a) (opt a) (grp a)

func reSrc(r *Sx, top bool) string {
	a := r.Args()
	switch r.Tag() {
	case "eps":
		return ""
	case "lit":
		var sb strings.Builder
		for _, c := range []byte(a[0].Bytes()) {
			if strings.IndexByte(`.+*?()|[]{}\`, c) >= 0 {
				sb.WriteByte('\\')
			}
			sb.WriteByte(c)
		}
		return sb.String()
	case "cls":
		var sb strings.Builder
		sb.WriteByte('[')
		for _, rg := range a {
			lo, hi := rg.Args()[0].Int(), rg.Args()[1].Int()
			w := func(c int) {
				if strings.IndexByte(`\]-[`, byte(c)) >= 0 {
					sb.WriteByte('\\')
				}
				sb.WriteByte(byte(c))
			}
			w(lo)
			if hi != lo {
				sb.WriteByte('-')
				w(hi)
			}
		}
		sb.WriteByte(']')
		return sb.String()
	case "any":
		return "."
	case "cat":
		return reSrcIn(a[0], "cat") + reSrcIn(a[1], "cat")
	case "alt":
		return reSrcIn(a[0], "alt") + "|" + reSrcIn(a[1], "alt")
	case "star":
		return reSrcIn(a[0], "rep") + "*"
	case "plus":
		return reSrcIn(a[0], "rep") + "+"
	case "opt":
		return reSrcIn(a[0], "rep") + "?"
	case "grp":
		return "(" + reSrc(a[0], true) + ")"
	}
	panic(badInput("regex " + r.String()))
}

// reSrcIn parenthesises when precedence requires it (capturing parentheses: "(?:" cannot be written in a route).
func reSrcIn(r *Sx, ctx string) string {
	s := reSrc(r, false)
	need := false
	switch r.Tag() {
	case "alt":
		need = ctx != "alt"
	case "cat":
		need = ctx == "rep"
	case "lit":
		need = ctx == "rep" && len(r.Args()[0].Bytes()) != 1
	case "star", "plus", "opt":
		need = ctx == "rep"
	case "eps":
		need = ctx == "rep"
	}
	if need {
		return "(" + s + ")"
	}
	return s
}

// does the AST only use syntax the route lexer accepts inside /.../ ?
func reLexable(src string) bool {
	if src == "" {
		return false
	}
	for i := 0; i < len(src); i++ {
		c := src[i]
		ok := c >= 'a' && c <= 'z' || c >= 'A' && c <= 'Z' || c >= '0' && c <= '9' || strings.IndexByte(`*-+._,?()[]{} \|`, c) >= 0
		if !ok {
			return false
		}
	}
	return true
}

func reSample(rng *rand.Rand, r *Sx, d int) string {
	a := r.Args()
	switch r.Tag() {
	case "eps":
		return ""
	case "lit":
		return a[0].Bytes()
	case "cls":
		rg := a[rng.Intn(len(a))]
		lo, hi := rg.Args()[0].Int(), rg.Args()[1].Int()
		return string(rune(lo + rng.Intn(hi-lo+1)))
	case "any":
		return string("abxyz019-.+"[rng.Intn(11)])
	case "cat":
		return reSample(rng, a[0], d) + reSample(rng, a[1], d)
	case "alt":
		return reSample(rng, a[rng.Intn(2)], d)
	case "star":
		s := ""
		for k := rng.Intn(3); k > 0; k-- {
			s += reSample(rng, a[0], d)
		}
		return s
	case "plus":
		s := reSample(rng, a[0], d)
		for k := rng.Intn(2); k > 0; k-- {
			s += reSample(rng, a[0], d)
		}
		return s
	case "opt":
		if rng.Intn(2) == 0 {
			return ""
		}
		return reSample(rng, a[0], d)
	case "grp":
		return reSample(rng, a[0], d)
	}
	panic(badInput("regex " + r.String()))
}

func reNullable(r *Sx) bool {
	a := r.Args()
	switch r.Tag() {
	case "eps", "star", "opt":
		return true
	case "lit":
		return len(a[0].Bytes()) == 0
	case "cls", "any":
		return false
	case "cat":
		return reNullable(a[0]) && reNullable(a[1])
	case "alt":
		return reNullable(a[0]) || reNullable(a[1])
	case "plus", "grp":
		return reNullable(a[0])
	}
	return true
}

func genRe(rng *rand.Rand, d int) *Sx {
	lits := []string{"a", "b", "x", "y", "z", "0", "ab", "-", ".", "+", "xy"}
	if d <= 0 || rng.Intn(3) == 0 {
		switch rng.Intn(5) {
		case 0:
			return T("cls", T("r", I('a'), I('z')))
		case 1:
			return T("cls", T("r", I('0'), I('9')))
		case 2:
			return T("cls", T("r", I('a'), I('c')), T("r", I('x'), I('x')), T("r", I('0'), I('1')))
		case 3:
			return T("any")
		}
		return T("lit", X(lits[rng.Intn(len(lits))]))
	}
	nonNull := func() *Sx {
		for {
			r := genRe(rng, d-1)
			if !reNullable(r) {
				return r
			}
		}
	}
	switch rng.Intn(6) {
	case 0:
		return T("cat", genRe(rng, d-1), genRe(rng, d-1))
	case 1:
		return T("alt", genRe(rng, d-1), genRe(rng, d-1))
	case 2:
		return T("star", nonNull())
	case 3:
		return T("plus", nonNull())
	case 4:
		return T("opt", genRe(rng, d-1))
	}
	return T("grp", genRe(rng, d-1))
}

// ---------------------------------------------------------------- route ASTs
// (route (seg OPT el...)...)   el ::= (id xHEX) | (bind xHEX) | (params (p xNAME (lit xHEX)|(re xSRC))...)

func routeText(r *Sx) string {
	if r.Tag() == "text" { // a raw route text
		return r.Args()[0].Bytes()
	}
	var sb strings.Builder
	for _, s := range r.Args() {
		sb.WriteByte('/')
		a := s.Args()
		if a[0].Atom == "1" {
			sb.WriteByte('?')
		}
		for _, e := range a[1:] {
			switch e.Tag() {
			case "id":
				sb.WriteString(e.Args()[0].Bytes())
			case "bind":
				sb.WriteString("{" + e.Args()[0].Bytes() + "}")
			case "params":
				sb.WriteByte('{')
				for i, p := range e.Args() {
					if i > 0 {
						sb.WriteString(", ")
					}
					sb.WriteString(p.Args()[0].Bytes() + ": ")
					v := p.Args()[1]
					if v.Tag() == "lit" {
						sb.WriteString(v.Args()[0].Bytes())
					} else {
						sb.WriteString("/" + v.Args()[0].Bytes() + "/")
					}
				}
				sb.WriteByte('}')
			default:
				panic(badInput("element " + e.String()))
			}
		}
	}
	return sb.String()
}

type routerGen struct {
	rng     *rand.Rand
	regexes map[string]*Sx // src -> AST or (bad)
	order   []string
}

func (g *routerGen) regexParam(name string, ast *Sx) *Sx {
	src := reSrc(ast, true)
	if !reLexable(src) {
		ast = T("plus", T("cls", T("r", I('a'), I('z'))))
		src = reSrc(ast, true)
	}
	if _, ok := g.regexes[src]; !ok {
		g.regexes[src] = ast
		g.order = append(g.order, src)
	}
	return T("p", X(name), T("re", X(src)))
}

func (g *routerGen) badRegexParam(name string) *Sx {
	src := []string{"a)(b", "(", "[a", "x)", "*a"}[g.rng.Intn(5)]
	if _, ok := g.regexes[src]; !ok {
		g.regexes[src] = T("bad")
		g.order = append(g.order, src)
	}
	return T("p", X(name), T("re", X(src)))
}

var bindNames = []string{"x", "y", "z", "a", "b", "id", "n", "route", "user-id", "f.n", "k~1", "withOptional"} // "route" is reserved: the framework overwrites it

// one segment's elements; kind: 0 static 1 placeholder 2 regex 3 all
func (g *routerGen) segment(opt bool, kindBias int) *Sx {
	rng := g.rng
	o := B(opt)
	name := func() string { return bindNames[rng.Intn(len(bindNames))] }
	k := kindBias
	if k < 0 {
		k = []int{0, 0, 0, 1, 1, 2, 2, 3}[rng.Intn(8)]
	}
	switch k {
	case 0:
		return T("seg", o, T("id", X([]string{"a", "b", "ab", "a.b", "c", "a+b", "x(y)", "$", "a*", "v1", "a%20b"}[rng.Intn(11)]))) // "a%20b": the text, not "a b"
	case 1:
		return T("seg", o, T("bind", X(name())))
	case 2:
		switch rng.Intn(8) {
		case 0:
			return T("seg", o, T("params", g.regexParam(name(), T("plus", T("cls", T("r", I('0'), I('9')))))))
		case 1:
			return T("seg", o, T("params", g.regexParam(name(), T("plus", T("cls", T("r", I('a'), I('z')))))))
		case 2:
			return T("seg", o, T("id", X([]string{"a", "v", "a+b", "(a)", "x."}[rng.Intn(5)])), T("bind", X(name())))
		case 3:
			return T("seg", o, T("bind", X("p")), T("id", X("-")), T("bind", X("q")))
		case 4:
			return T("seg", o, T("params", g.regexParam("a", T("cat", T("grp", T("alt", T("lit", X("x")), T("lit", X("y")))), T("lit", X("z"))))),
				T("id", X("-")), T("params", g.regexParam("b", T("plus", T("lit", X("w"))))))
		case 5:
			return T("seg", o, T("params", g.regexParam(name(), genRe(rng, 2)), g.regexParam(name()+"2", genRe(rng, 2))))
		case 6:
			return T("seg", o, T("id", X([]string{"f", "a.", "$"}[rng.Intn(3)])), T("params", g.regexParam(name(), genRe(rng, 3))))
		}
		return T("seg", o, T("params", g.regexParam(name(), genRe(rng, 3))))
	}
	switch rng.Intn(10) {
	case 7: // a regex-constrained bind next to the match-all (finding F21: must be rejected)
		return T("seg", o, T("params", T("p", X(name()), T("lit", X("**"))), g.regexParam(name()+"3", T("plus", T("lit", X("z"))))))
	case 8: // ... after a capture option
		return T("seg", o, T("params", T("p", X(name()), T("lit", X("**"))), T("p", X("capture"), T("lit", X("2"))), g.regexParam("w", T("plus", T("lit", X("z"))))))
	case 9: // a further literal option is ignored
		return T("seg", o, T("params", T("p", X(name()), T("lit", X("**"))), T("p", X("opt"), T("lit", X("v")))))
	case 0:
		return T("seg", o, T("bind", X("**")))
	case 1:
		return T("seg", o, T("params", T("p", X(name()), T("lit", X("**")))))
	case 2:
		return T("seg", o, T("params", T("p", X(name()), T("lit", X("**"))), T("p", X("capture"), T("lit", X("2")))))
	case 3:
		return T("seg", o, T("params", T("p", X(name()), T("lit", X("**"))), T("p", X("capture"), T("lit", X("1")))))
	case 4:
		return T("seg", o, T("params", T("p", X(name()), T("lit", X("**"))), T("p", X("capture"), T("lit", X("-1")))))
	case 5:
		return T("seg", o, T("params", T("p", X(name()), T("lit", X("**"))), T("p", X("capture"), T("lit", X("3x")))))
	}
	return T("seg", o, T("params", T("p", X("m"), T("lit", X("**")))))
}

func (g *routerGen) route(staticOnly bool) *Sx {
	rng := g.rng
	if rng.Intn(40) == 0 { // "/?": an optional empty segment, both forms are "/"
		return T("route", T("seg", B(true)))
	}
	n := 1 + rng.Intn(4)
	var segs []*Sx
	for i := 0; i < n; i++ {
		opt := i == n-1 && rng.Intn(5) == 0
		kb := -1
		if staticOnly {
			kb = 0
		}
		segs = append(segs, g.segment(opt, kb))
	}
	if rng.Intn(12) == 0 { // trailing slash: a final empty segment
		segs = append(segs, T("seg", B(false)))
	}
	return T("route", segs...)
}

// an ill-formed registration of a chosen kind (C08)
func (g *routerGen) badRoute(existing []*Sx) *Sx {
	rng := g.rng
	switch rng.Intn(9) {
	case 0: // non-final optional
		return T("route", g.segment(true, 0), g.segment(false, -1))
	case 1: // inner empty segment
		return T("route", g.segment(false, 0), T("seg", B(false)), g.segment(false, 0))
	case 2: // bind reused along the route
		return T("route", T("seg", B(false), T("bind", X("x"))), g.segment(false, 0), T("seg", B(false), T("bind", X("x"))))
	case 3: // bind reused within a segment
		return T("route", T("seg", B(false), T("bind", X("a")), T("id", X("-")), T("bind", X("a"))))
	case 4: // two match-alls before the end
		return T("route", g.segment(false, 3), g.segment(false, 0), T("seg", B(false), T("params", T("p", X("zz"), T("lit", X("**"))))), g.segment(false, 0))
	case 5: // expression does not compile
		return T("route", g.segment(false, 0), T("seg", B(false), T("params", g.badRegexParam("r"))))
	case 6: // non-regex literal value
		return T("route", T("seg", B(false), T("params", T("p", X("k"), T("lit", X("v"))))))
	case 7: // match-all with trailing literal (F9)
		return T("route", T("seg", B(false), T("params", T("p", X("k"), T("lit", X("**")))), T("id", X("abc"))))
	}
	if len(existing) > 0 { // duplicate of an existing route (or of its short form)
		r := existing[rng.Intn(len(existing))]
		segs := r.Args()
		if last := segs[len(segs)-1]; rng.Intn(3) == 0 && len(last.Args()) > 1 {
			// the same route with the optional marker flipped on its last segment: "/a/b" vs "/a/?b"
			flip := B(last.Args()[0].Atom != "1")
			alt := append([]*Sx{}, segs[:len(segs)-1]...)
			alt = append(alt, T("seg", append([]*Sx{flip}, last.Args()[1:]...)...))
			return T("route", alt...)
		}
		if segs[len(segs)-1].Args()[0].Atom == "1" && len(segs) > 1 && rng.Intn(2) == 0 {
			return T("route", segs[:len(segs)-1]...)
		}
		if rng.Intn(4) == 0 && len(segs) > 1 {
			// the last segment replaced by an optional match-all of another name: where the route ends in a match-all
			// this is a different match-all at the same position (refused; its short form must not stay behind)
			alt := append([]*Sx{}, segs[:len(segs)-1]...)
			alt = append(alt, T("seg", B(true), T("params", T("p", X("zq"), T("lit", X("**"))))))
			return T("route", alt...)
		}
		return r
	}
	return T("route", g.segment(true, 0), g.segment(false, 0))
}

// a path that instantiates the route (mostly), ASCII for regex segments
func (g *routerGen) instance(r *Sx) string {
	rng := g.rng
	var parts []string
	segs := r.Args()
	for i, s := range segs {
		a := s.Args()
		if a[0].Atom == "1" && i == len(segs)-1 && rng.Intn(2) == 0 {
			break
		}
		els := a[1:]
		if len(els) == 1 && els[0].Tag() == "params" && els[0].Args()[0].Args()[1].Tag() == "lit" && els[0].Args()[0].Args()[1].Args()[0].Bytes() == "**" ||
			len(els) == 1 && els[0].Tag() == "bind" && els[0].Args()[0].Bytes() == "**" {
			for k := 1 + rng.Intn(3); k > 0; k-- {
				parts = append(parts, []string{"a", "b", "7", "q", "", "a%2Fb"}[rng.Intn(6)])
			}
			continue
		}
		var sb strings.Builder
		for _, e := range els {
			switch e.Tag() {
			case "id":
				sb.WriteString(e.Args()[0].Bytes())
			case "bind":
				sb.WriteString([]string{"a", "b", "7", "zz", "", "v1", "x%20y", "%zz", "a-b", "12"}[rng.Intn(10)])
			case "params":
				for _, p := range e.Args() {
					v := p.Args()[1]
					if v.Tag() == "re" {
						if ast := g.regexes[v.Args()[0].Bytes()]; ast != nil && ast.Tag() != "bad" {
							sb.WriteString(reSample(rng, ast, 3))
						}
					} else {
						sb.WriteString("v")
					}
				}
			}
		}
		parts = append(parts, sb.String())
	}
	return "/" + strings.Join(parts, "/")
}

func (g *routerGen) perturb(p string) string {
	rng := g.rng
	if strings.Contains(p, "%") && rng.Intn(2) == 0 {
		if u, err := url.PathUnescape(p); err == nil && u != p {
			return u // the decoded spelling is another path: "/a b" is not the static route "/a%20b"
		}
	}
	if rng.Intn(12) == 0 { // the same path with one letter in the other case is another path
		b := []byte(p)
		for try := 0; try < 8 && len(b) > 0; try++ {
			i := rng.Intn(len(b))
			if b[i] >= 'a' && b[i] <= 'z' {
				b[i] -= 32
				return string(b)
			}
			if b[i] >= 'A' && b[i] <= 'Z' {
				b[i] += 32
				return string(b)
			}
		}
	}
	switch rng.Intn(8) {
	case 0:
		return p + "/"
	case 1:
		return "/" + p
	case 2:
		return p + "/" + []string{"a", "b", "x", ""}[rng.Intn(4)]
	case 3:
		if i := strings.LastIndex(p, "/"); i > 0 {
			return p[:i]
		}
	case 4:
		if len(p) > 1 {
			i := 1 + rng.Intn(len(p)-1)
			return p[:i] + string("ab/01x"[rng.Intn(6)]) + p[i:]
		}
	case 5:
		if len(p) > 1 {
			i := 1 + rng.Intn(len(p)-1)
			return p[:i] + p[i+1:]
		}
	case 6:
		return strings.Replace(p, "/", "//", 1)
	}
	return p
}

func (g *routerGen) randomPath() string {
	rng := g.rng
	var parts []string
	for k := 1 + rng.Intn(5); k > 0; k-- {
		parts = append(parts, []string{"a", "b", "ab", "", "12", "zz", "a1", "a.b", "x-y", "c", "v1", "$", "a+b", "a b", "a%20b"}[rng.Intn(15)])
	}
	return "/" + strings.Join(parts, "/")
}

func hostileBytes(rng *rand.Rand) string {
	switch rng.Intn(8) {
	case 0:
		return ""
	case 1:
		return strings.Repeat("/", rng.Intn(6))
	case 2:
		b := make([]byte, rng.Intn(12))
		rng.Read(b)
		return string(b)
	case 3:
		b := make([]byte, rng.Intn(10))
		rng.Read(b)
		return "/" + string(b)
	case 4:
		return "/%" + string("0123456789abcdefgGzZ%/"[rng.Intn(22)]) + string("0123456789abcdefgG%/ "[rng.Intn(21)])
	case 5:
		return "/a/" + strings.Repeat("x/", rng.Intn(40)) + "\x00\xff"
	case 6:
		return strings.Repeat("/seg\xc3\x28", 1+rng.Intn(200))
	}
	return "*"
}

var methodNames = []string{"GET", "POST", "PUT", "DELETE", "PATCH", "OPTIONS", "HEAD", "CONNECT", "TRACE"}

func (g *routerGen) methodSpec() *Sx {
	rng := g.rng
	switch r := rng.Intn(20); {
	case r < 11:
		return T("m", A("GET"))
	case r < 15:
		return T("m", A(methodNames[rng.Intn(len(methodNames))]))
	case r < 17:
		return T("any")
	case r < 18:
		return T("m", A(strings.ToLower(methodNames[rng.Intn(len(methodNames))])))
	}
	return T("m", A("POST"))
}

func (g *routerGen) headerPairs() []*Sx {
	rng := g.rng
	names := []string{"X-K", "User-Agent", "Accept", "x-k", "X-k", "USER-AGENT"} // a name is looked up in its canonical form
	var out []*Sx
	used := map[string]bool{}
	for k := rng.Intn(3); k > 0; k-- {
		n := names[rng.Intn(len(names))]
		if used[n] {
			continue
		}
		used[n] = true
		var ast *Sx
		switch rng.Intn(5) {
		case 4:
			ast = T("opt", T("lit", X("v"))) // an expression that also matches the empty string: the value must still be non-empty
		case 0:
			ast = T("lit", X("v"))
		case 1:
			ast = T("eps") // "" : any non-empty value
		case 2:
			ast = T("plus", T("cls", T("r", I('0'), I('9'))))
		default:
			ast = T("cat", T("lit", X("a")), T("opt", T("lit", X("b"))))
		}
		out = append(out, T("h", X(n), ast, X(reSrc(ast, true))))
	}
	return out
}

func (g *routerGen) reqHeaders() []*Sx {
	rng := g.rng
	var out []*Sx
	for _, n := range []string{"X-K", "User-Agent", "Accept"} {
		if rng.Intn(2) == 0 {
			val := []string{"v", "", "12", "a", "ab", "xvx", "b", " v", "ab ", " ", "\t12"}[rng.Intn(11)] // blanks are part of the value
			if rng.Intn(25) == 0 {
				val = strings.Repeat("z", 1030) + val // a long value is matched whole
			}
			if rng.Intn(8) == 0 { // the header sent twice: the first value counts
				out = append(out, T("h", X(n), X(val), X([]string{"v", "12", "ab", "zz"}[rng.Intn(4)])))
				continue
			}
			out = append(out, T("h", X(n), X(val)))
		} else if rng.Intn(12) == 0 {
			out = append(out, T("h", X(n), A("novalues"))) // the key is in the header map with an empty list of values
		}
	}
	return out
}

// genRouter emits histories; profile selects the mix.
func genRouter(profile string) func(rng *rand.Rand, n int, tier string, emit func(*Sx)) {
	return func(rng *rand.Rand, n int, tier string, emit func(*Sx)) {
		for i := 0; i < n; i++ {
			g := &routerGen{rng: rng, regexes: map[string]*Sx{}}
			var ops []*Sx
			var accepted []*Sx // route ASTs tried so far (some may get rejected)
			nreg := 1 + rng.Intn(7)
			staticBias := profile == "C10" && rng.Intn(2) == 0
			policy := "rebuild"
			if profile == "C08" && rng.Intn(5) == 0 {
				policy = "same" // go on with the same instance after a rejection: a failed registration answers nothing
			}
			if profile == "C01" && rng.Intn(15) == 0 {
				// many equally ranked alternatives under one node: the earliest registered still wins
				for k := 0; k < 14; k++ {
					r := T("route", T("seg", B(false), T("id", X("vv"))), T("seg", B(false), T("params", g.regexParam(fmt.Sprintf("r%d", k), T("plus", T("cls", T("r", I('0'), I('9'))))))))
					ops = append(ops, T("reg", T("m", A("GET")), r))
					accepted = append(accepted, r)
					if k%5 == 2 { // leaves of other styles in between
						for _, x := range []*Sx{T("seg", B(false), T("id", X(fmt.Sprintf("st%d", k)))), T("seg", B(false), T("bind", X(fmt.Sprintf("ph%d", k))))} {
							r2 := T("route", T("seg", B(false), T("id", X("vv"))), x)
							ops = append(ops, T("reg", T("m", A("GET")), r2))
							accepted = append(accepted, r2)
						}
					}
				}
				ops = append(ops, T("req", X("GET"), X("/vv/123"), T("hdrs")), T("req", X("GET"), X("/vv/st2"), T("hdrs")), T("req", X("GET"), X("/vv/zz"), T("hdrs")))
			}
			if profile == "C08" && policy == "rebuild" && rng.Intn(12) == 0 {
				// two routes that differ only by a '?' inside an expression are different routes (both accepted); two
				// different match-alls in the middle at the same position cannot coexist (the second is refused),
				// whatever other children that position has
				lit := func(x string) *Sx { return T("seg", B(false), T("id", X(x))) }
				ma := func(n string) *Sx { return T("seg", B(false), T("params", T("p", X(n), T("lit", X("**"))))) }
				w := fmt.Sprintf("w%d", i%7)
				ab1 := T("seg", B(false), T("params", g.regexParam("a", T("cat", T("lit", X("a")), T("opt", T("lit", X("b")))))))
				ab2 := T("seg", B(false), T("params", g.regexParam("a", T("cat", T("lit", X("a")), T("lit", X("b"))))))
				seq := []*Sx{T("route", lit(w), ab1), T("route", lit(w), ab2),
					T("route", lit(w), lit("st"), lit("x")), T("route", lit(w), ma("m1"), lit("y")), T("route", lit(w), ma("m2"), lit("z"))}
				for _, r := range seq {
					ops = append(ops, T("reg", T("m", A("GET")), r))
					accepted = append(accepted, r)
				}
				ops = append(ops, T("req", X("GET"), X("/"+w+"/ab"), T("hdrs")), T("req", X("GET"), X("/"+w+"/a"), T("hdrs")),
					T("req", X("GET"), X("/"+w+"/q/r/z"), T("hdrs")), T("req", X("GET"), X("/"+w+"/q/y"), T("hdrs")))
			}
			for k := 0; k < nreg; k++ {
				var r *Sx
				badP := 12
				if profile == "C08" {
					badP = 3
				}
				if rng.Intn(badP) == 0 {
					r = g.badRoute(accepted)
				} else {
					r = g.route(staticBias || (profile == "C10" && rng.Intn(3) == 0))
				}
				ms := g.methodSpec()
				if policy == "same" && ms.Tag() == "any" {
					ms = T("m", A("GET")) // a multi-method registration is the sequence of its single-method ones (C11)
				}
				if profile == "C08" && rng.Intn(15) == 0 {
					ms = T("m", A([]string{"FOO", "", "GETT"}[rng.Intn(3)]))
					// a comma list through Routes(): every entry must be a known method (Routes is the sequence of its
					// single-method registrations, C11, so it is not used where the same instance goes on after a failure)
					if rng.Intn(2) == 0 && policy == "rebuild" {
						ms = T("list", X([]string{"GET,POST", "PUT, DELETE", "GET,", ",GET", "GET,,POST", "GET POST", "PATCH ,HEAD"}[rng.Intn(7)]))
					}
				}
				if profile == "C08" && policy == "rebuild" && rng.Intn(8) == 0 && !strings.Contains(routeText(r), ": /") {
					// the text of the route with one character inserted: the grammar decides (blanks are allowed only
					// around names and values inside braces, and only the space character after ':' and ',')
					txt := routeText(r)
					at := rng.Intn(len(txt) + 1)
					ins := []string{"\t", " ", "\n", "?", "{", "}", ",", ":", "*", "\r"}[rng.Intn(10)]
					ops = append(ops, T("reg", ms, T("text", X(txt[:at]+ins+txt[at:]))))
					continue
				}
				ops = append(ops, T("reg", ms, r))
				accepted = append(accepted, r)
				if policy == "same" && rng.Intn(2) == 0 && len(r.Args()) > 1 {
					// straight after it, the same route with its last segment replaced by an optional match-all of
					// another name (refused where that position already holds a match-all), then requests for the
					// short and the long form: nothing of a refused registration answers
					segs := r.Args()
					alt := append([]*Sx{}, segs[:len(segs)-1]...)
					alt = append(alt, T("seg", B(true), T("params", T("p", X("zq"), T("lit", X("**"))))))
					v := T("route", alt...)
					ops = append(ops, T("reg", ms, v))
					accepted = append(accepted, v)
					short := routeText(T("route", segs[:len(segs)-1]...))
					ops = append(ops, T("req", X("GET"), X(short), T("hdrs")), T("req", X("GET"), X(short+"/a/b"), T("hdrs")))
				}
				hp := 0
				if profile == "C09" || profile == "C10" {
					hp = 3
				} else if profile == "C01" || profile == "C07" {
					hp = 10
				}
				if hp > 0 && rng.Intn(hp) == 0 {
					for c := 1 + rng.Intn(2); c > 0; c-- {
						ops = append(ops, T("hdr", I(rng.Intn(len(accepted))), T("pairs", g.headerPairs()...)))
					}
				}
				// requests interleaved with registrations
				nreq := rng.Intn(4)
				if k == nreg-1 {
					nreq = 4 + rng.Intn(8)
				}
				for q := 0; q < nreq; q++ {
					var p string
					switch r := rng.Intn(10); {
					case r < 5:
						p = g.instance(accepted[rng.Intn(len(accepted))])
					case r < 7:
						p = g.perturb(g.instance(accepted[rng.Intn(len(accepted))]))
					case r < 8 && (profile == "C10" || profile == "C07" || profile == "C02"):
						p = routeText(accepted[rng.Intn(len(accepted))]) // the route text itself as a path
					default:
						p = g.randomPath()
					}
					m := "GET"
					if rng.Intn(5) == 0 {
						m = methodNames[rng.Intn(len(methodNames))]
					}
					if rng.Intn(15) == 0 { // method tokens are case-sensitive: "get" is an unknown method
						m = []string{"get", "Get", "post", "head"}[rng.Intn(4)]
					}
					if profile == "C07" {
						if rng.Intn(3) == 0 {
							p = hostileBytes(rng)
							if len(g.order) > 0 {
								// the regex fragment is modelled over bytes, Go matches runes: with regex
								// routes around, the hostile stream stays within ASCII (DESIGN section 3)
								b := []byte(p)
								for i := range b {
									b[i] &= 0x7f
								}
								p = string(b)
							}
						}
						if rng.Intn(6) == 0 {
							m = []string{"", "get", "FOO", "G E T", "\x00", "PROPFIND"}[rng.Intn(6)]
						}
					}
					if (profile == "C07" || profile == "C10") && rng.Intn(25) == 0 {
						// method and path must be told apart: "" + "GET/a", "G" + "ET/a", "GET/a" + "" are not GET /a
						t := routeText(accepted[rng.Intn(len(accepted))])
						switch rng.Intn(3) {
						case 0:
							m, p = "", "GET"+t
						case 1:
							m, p = "G", "ET"+t
						default:
							m, p = "GET"+t, ""
						}
					}
					hs := g.reqHeaders()
					ops = append(ops, T("req", X(m), X(p), T("hdrs", hs...)))
					if (profile == "C10" || profile == "C09" || profile == "C07") && rng.Intn(4) == 0 {
						// the same request again under another spelling of the path, and then without its headers:
						// an answer must not depend on what an earlier request left behind
						alt := "/" + p
						if rng.Intn(3) == 0 {
							alt = strings.TrimLeft(p, "/")
						}
						ops = append(ops, T("req", X(m), X(alt), T("hdrs", hs...)))
						ops = append(ops, T("req", X(m), X(alt), T("hdrs")))
						ops = append(ops, T("req", X(m), X(p), T("hdrs")))
						ops = append(ops, T("req", X(m), X(p), T("hdrs", hs...))) // and with them again: a miss is not remembered
					}
				}
			}
			var res []*Sx
			for _, src := range g.order {
				res = append(res, T("r", X(src), g.regexes[src]))
			}
			emit(T("in", T("policy", A(policy)), T("regexes", res...), T("ops", ops...)))
		}
	}
}

// ---------------------------------------------------------------- running a history
type routerRun struct {
	f      *flamego.Flame
	routes []*flamego.Route // by registration index (nil when rejected)
	hit    *Sx
	chains int
	inCtx  func(c flamego.Context) // run inside the not-found chain of the next request, with its Context
}

func newRouterRun() *routerRun {
	rr := &routerRun{}
	rr.f = flamego.NewWithLogger(io.Discard)
	rr.f.Use(func(c flamego.Context) { rr.chains++ })
	rr.f.NotFound(func(c flamego.Context) {
		rr.hit = T("notfound")
		if rr.inCtx != nil {
			rr.inCtx(c)
		}
	})
	return rr
}

func (rr *routerRun) register(idx int, ms *Sx, r *Sx) (ok bool) {
	defer func() {
		if p := recover(); p != nil {
			ok = false
		}
	}()
	text := routeText(r)
	// the same route under another spelling (blanks after ':' are optional): what handlers are told as "route" is the
	// canonical text, however the route was written
	switch idx % 3 {
	case 1:
		text = strings.ReplaceAll(text, ": ", ":")
	case 2:
		text = strings.ReplaceAll(text, ": ", ":  ")
	}
	h := func(c flamego.Context) {
		var ps []*Sx
		params := c.Params()
		keys := make([]string, 0, len(params))
		for k := range params {
			keys = append(keys, k)
		}
		sort.Strings(keys)
		for _, k := range keys {
			ps = append(ps, T("p", X(k), X(params[k])))
		}
		rr.hit = T("found", append([]*Sx{I(idx)}, ps...)...)
		// what a handler writes into its parameter map must not be seen by any other request
		params["~stain"] = "1"
	}
	var rt *flamego.Route
	if ms.Tag() == "any" {
		rt = rr.f.Any(text, h)
	} else if ms.Tag() == "list" {
		rt = rr.f.Routes(text, ms.Args()[0].Bytes(), h)
	} else {
		rt = rr.f.Route(ms.Args()[0].Atom, text, []flamego.Handler{h})
	}
	for len(rr.routes) <= idx {
		rr.routes = append(rr.routes, nil)
	}
	rr.routes[idx] = rt
	return true
}

func (rr *routerRun) headers(idx int, pairs *Sx) {
	if idx >= len(rr.routes) || rr.routes[idx] == nil {
		return
	}
	var kv []string
	for _, h := range pairs.Args() {
		kv = append(kv, h.Args()[0].Bytes(), h.Args()[2].Bytes())
	}
	rr.routes[idx].Headers(kv...)
}

func runRouter(in *Sx) *Sx {
	rebuild := in.Field("policy") == nil || in.Field("policy").Args()[0].Atom == "rebuild"
	rr := newRouterRun()
	var done []*Sx // accepted reg / hdr ops so far, for rebuilding
	var regIdx []int
	var outs []*Sx
	nreg := 0
	for _, op := range in.Field("ops").Args() {
		a := op.Args()
		switch op.Tag() {
		case "reg":
			idx := nreg
			nreg++
			if rr.register(idx, a[0], a[1]) {
				outs = append(outs, T("ok"))
				done = append(done, op)
				regIdx = append(regIdx, idx)
			} else {
				outs = append(outs, T("rej"))
				if rebuild { // AddRoute is not atomic (known finding F11): continue on a clean instance
					rr = newRouterRun()
					for k, d := range done {
						if d.Tag() == "reg" {
							if !rr.register(regIdx[k], d.Args()[0], d.Args()[1]) {
								panic("replay of an accepted registration failed")
							}
						} else if d.Tag() == "name" {
							rr.routes[d.Args()[0].Int()].Name(d.Args()[1].Bytes())
						} else {
							rr.headers(d.Args()[0].Int(), d.Args()[1])
						}
					}
				}
			}
		case "hdr":
			rr.headers(a[0].Int(), a[1])
			outs = append(outs, T("ok"))
			done = append(done, op)
			regIdx = append(regIdx, -1)
		case "name":
			res := T("ok")
			func() {
				defer func() {
					if p := recover(); p != nil {
						res = T("panic")
					}
				}()
				idx := a[0].Int()
				if idx >= len(rr.routes) || rr.routes[idx] == nil {
					res = T("skip")
					return
				}
				rr.routes[idx].Name(a[1].Bytes())
			}()
			outs = append(outs, res)
			if res.Tag() == "ok" {
				done = append(done, op)
				regIdx = append(regIdx, -1)
			}
		case "url":
			var res *Sx
			func() {
				defer func() {
					if p := recover(); p != nil {
						res = T("panic")
					}
				}()
				var pairs []string
				for _, x := range a[1].Args() {
					pairs = append(pairs, x.Bytes())
				}
				if len(a) > 2 {
					// through the Context of a request, after another build of the same route with other values in the
					// same request: every build substitutes its own values
					other := append([]string{}, pairs...)
					for i := 1; i < len(other); i += 2 {
						other[i] = "zz"
					}
					var got string
					var pan interface{}
					rr.inCtx = func(c flamego.Context) {
						defer func() { pan = recover() }()
						func() {
							defer func() { _ = recover() }()
							_ = c.URLPath(a[0].Bytes(), other...)
						}()
						got = c.URLPath(a[0].Bytes(), pairs...)
					}
					rr.f.ServeHTTP(&wireWriter{hdr: http.Header{}}, &http.Request{Method: "URLCTX", URL: &url.URL{Path: "/"}, Header: http.Header{}, Proto: "HTTP/1.1"})
					rr.inCtx = nil
					if pan != nil {
						panic(pan)
					}
					res = T("s", X(got))
					return
				}
				res = T("s", X(rr.f.URLPath(a[0].Bytes(), pairs...)))
			}()
			outs = append(outs, res)
		case "req":
			serve := func() *Sx {
				rr.hit = T("nohandler")
				rr.chains = 0
				hdr := http.Header{}
				for _, h := range a[2].Args() {
					if h.Args()[1].Atom == "novalues" {
						hdr[http.CanonicalHeaderKey(h.Args()[0].Bytes())] = []string{}
					} else {
						hdr.Set(h.Args()[0].Bytes(), h.Args()[1].Bytes())
						for _, more := range h.Args()[2:] {
							hdr.Add(h.Args()[0].Bytes(), more.Bytes())
						}
					}
				}
				req := &http.Request{Method: a[0].Bytes(), URL: &url.URL{Path: a[1].Bytes()}, Header: hdr, Proto: "HTTP/1.1", Host: "example.com"}
				if len(hdr) == 0 && len(a[1].Bytes())%2 == 1 {
					req.Header = nil // a hand-built request may have no header map at all: reading it is fine, routing never writes it
				}
				w := &wireWriter{hdr: http.Header{}}
				var res *Sx
				func() {
					defer func() {
						if p := recover(); p != nil {
							res = T("panic", X(fmt.Sprint(p)))
						}
					}()
					rr.f.ServeHTTP(w, req)
					res = rr.hit
					if rr.chains != 1 {
						res = T("chains", I(rr.chains), res)
					}
				}()
				return res
			}
			r1 := serve()
			r2 := serve()
			if r1.String() != r2.String() {
				r1 = T("nondeterministic", r1, r2)
			}
			if len(a) > 3 && r1.Tag() == "found" { // feed the delivered parameters back into URLPath
				name := a[3].Args()[0].Bytes()
				var pairs []string
				for _, p := range r1.Args()[1:] {
					if k := p.Args()[0].Bytes(); k != "route" {
						pairs = append(pairs, k, p.Args()[1].Bytes())
					}
				}
				rb := func(extra ...string) (res *Sx) {
					defer func() {
						if p := recover(); p != nil {
							res = A("panic")
						}
					}()
					return X(rr.f.URLPath(name, append(append([]string{}, pairs...), extra...)...))
				}
				r1 = T("rebuilt", r1, rb(), rb("withOptional", "true"))
			}
			outs = append(outs, r1)
		default:
			panic(badInput("op " + op.String()))
		}
	}
	return T("obs", T("outs", outs...))
}

// genC12: named routes and URL building with adversarial values.
func genC12(rng *rand.Rand, n int, tier string, emit func(*Sx)) {
	for i := 0; i < n; i++ {
		g := &routerGen{rng: rng, regexes: map[string]*Sx{}}
		var ops []*Sx
		var routes []*Sx
		names := []string{"home", "r1", "r2", "", "r1"}
		var named []string
		var namedRoute []*Sx
		nreg := 1 + rng.Intn(4)
		for k := 0; k < nreg; k++ {
			r := g.route(false)
			if rng.Intn(10) == 0 {
				r = g.badRoute(routes)
			}
			routes = append(routes, r)
			ms := T("m", A("GET"))
			if rng.Intn(4) == 0 {
				ms = T("any")
			}
			ops = append(ops, T("reg", ms, r))
			if rng.Intn(4) != 0 {
				nm := names[rng.Intn(len(names))]
				ops = append(ops, T("name", I(k), X(nm)))
				if rng.Intn(4) == 0 {
					ops = append(ops, T("name", I(k), X(nm))) // the same route under the same name again: the name is taken
				}
				named = append(named, nm)
				namedRoute = append(namedRoute, r)
			}
		}
		bindsOf := func(r *Sx) []string {
			var out []string
			for _, s := range r.Args() {
				for _, e := range s.Args()[1:] {
					switch e.Tag() {
					case "bind":
						out = append(out, e.Args()[0].Bytes())
					case "params":
						for _, p := range e.Args() {
							out = append(out, p.Args()[0].Bytes())
						}
					}
				}
			}
			return out
		}
		vals := []string{"", "v", "{x}", "{y}", "/", "{", "}", "{id}x", "a}{b", "7", "a/b", "%41", "x y", "why?", "a#b"}
		for q := 2 + rng.Intn(6); q > 0; q-- {
			r := routes[rng.Intn(len(routes))]
			nm := names[rng.Intn(len(names))]
			if len(named) > 0 && rng.Intn(6) != 0 {
				k := rng.Intn(len(named))
				nm, r = named[k], namedRoute[k]
			}
			var pairs []*Sx
			bs := bindsOf(r)
			for _, b := range bs {
				if rng.Intn(4) != 0 {
					pairs = append(pairs, X(b), X(vals[rng.Intn(len(vals))]))
				}
			}
			if rng.Intn(3) == 0 {
				pairs = append(pairs, X([]string{"nope", "x", "capture", "route"}[rng.Intn(4)]), X(vals[rng.Intn(len(vals))]))
			}
			if rng.Intn(2) == 0 {
				pairs = append(pairs, X("withOptional"), X([]string{"true", "true", "false", "1"}[rng.Intn(4)]))
			}
			if rng.Intn(10) == 0 && len(bs) > 0 { // the same name twice: the later value counts
				pairs = append(pairs, X(bs[0]), X("again"))
			}
			if rng.Intn(15) == 0 { // odd number of arguments
				pairs = append(pairs, X("dangling"))
			}
			if rng.Intn(3) == 0 {
				ops = append(ops, T("url", X(nm), T("pairs", pairs...), T("ctx")))
			} else {
				ops = append(ops, T("url", X(nm), T("pairs", pairs...)))
			}
			if len(pairs) >= 4 && rng.Intn(3) == 0 {
				// the same route once more with the second pair folded into the value of the first ("1 b:2"): two
				// different sets of values that a careless printout cannot tell apart
				folded := X(pairs[1].Bytes() + " " + pairs[2].Bytes() + ":" + pairs[3].Bytes())
				ops = append(ops, T("url", X(nm), T("pairs", append([]*Sx{pairs[0], folded}, pairs[4:]...)...)))
			}
			// requests whose parameters are then fed back (checked by the model)
			if rng.Intn(2) == 0 {
				if nm != "" {
					ops = append(ops, T("req", X("GET"), X(g.instance(r)), T("hdrs"), T("rebuild", X(nm))))
				} else {
					ops = append(ops, T("req", X("GET"), X(g.instance(r)), T("hdrs")))
				}
			}
		}
		var res []*Sx
		for _, src := range g.order {
			res = append(res, T("r", X(src), g.regexes[src]))
		}
		emit(T("in", T("policy", A("rebuild")), T("regexes", res...), T("ops", ops...)))
	}
}

func init() {
	properties["C12"] = &property{gen: genC12, run: runRouter}
	for _, p := range []string{"C01", "C02", "C07", "C08", "C09", "C10"} {
		properties[p] = &property{gen: genRouter(p), run: runRouter}
	}
}
