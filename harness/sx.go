package main

import (
	"encoding/hex"
	"fmt"
	"strconv"
	"strings"
)

// Sx is a minimal s-expression: an atom or a list.
type Sx struct {
	Atom string
	List []*Sx
	IsL  bool
}

func A(s string) *Sx                 { return &Sx{Atom: s} }
func I(i int) *Sx                    { return &Sx{Atom: strconv.Itoa(i)} }
func I64(i int64) *Sx                { return &Sx{Atom: strconv.FormatInt(i, 10)} }
func X(b string) *Sx                 { return &Sx{Atom: "x" + hex.EncodeToString([]byte(b))} }
func L(items ...*Sx) *Sx             { return &Sx{IsL: true, List: items} }
func T(tag string, items ...*Sx) *Sx { return &Sx{IsL: true, List: append([]*Sx{A(tag)}, items...)} }
func B(b bool) *Sx {
	if b {
		return A("1")
	}
	return A("0")
}

func (s *Sx) write(sb *strings.Builder) {
	if !s.IsL {
		sb.WriteString(s.Atom)
		return
	}
	sb.WriteByte('(')
	for i, x := range s.List {
		if i > 0 {
			sb.WriteByte(' ')
		}
		x.write(sb)
	}
	sb.WriteByte(')')
}

func (s *Sx) String() string {
	var sb strings.Builder
	s.write(&sb)
	return sb.String()
}

func parseSx(src string) (*Sx, error) {
	pos := 0
	var item func() (*Sx, error)
	skip := func() {
		for pos < len(src) && (src[pos] == ' ' || src[pos] == '\t' || src[pos] == '\n' || src[pos] == '\r') {
			pos++
		}
	}
	item = func() (*Sx, error) {
		skip()
		if pos >= len(src) {
			return nil, fmt.Errorf("eof")
		}
		if src[pos] == '(' {
			pos++
			l := &Sx{IsL: true}
			for {
				skip()
				if pos >= len(src) {
					return nil, fmt.Errorf("unclosed")
				}
				if src[pos] == ')' {
					pos++
					return l, nil
				}
				x, err := item()
				if err != nil {
					return nil, err
				}
				l.List = append(l.List, x)
			}
		}
		if src[pos] == ')' {
			return nil, fmt.Errorf("unexpected )")
		}
		st := pos
		for pos < len(src) && !strings.ContainsRune(" ()\n\t\r", rune(src[pos])) {
			pos++
		}
		return A(src[st:pos]), nil
	}
	r, err := item()
	if err != nil {
		return nil, err
	}
	skip()
	if pos != len(src) {
		return nil, fmt.Errorf("trailing input")
	}
	return r, nil
}

// Tag returns the head atom of (tag ...).
func (s *Sx) Tag() string {
	if s.IsL && len(s.List) > 0 && !s.List[0].IsL {
		return s.List[0].Atom
	}
	return ""
}

// Args returns the items after the tag.
func (s *Sx) Args() []*Sx {
	if s.IsL && len(s.List) > 0 {
		return s.List[1:]
	}
	return nil
}

// Field finds the sub-list (name ...).
func (s *Sx) Field(name string) *Sx {
	if s.IsL {
		for _, x := range s.List {
			if x.Tag() == name {
				return x
			}
		}
	}
	return nil
}

func (s *Sx) Int() int {
	i, err := strconv.Atoi(s.Atom)
	if err != nil {
		panic(badInput("int expected: " + s.String()))
	}
	return i
}

func (s *Sx) Bytes() string {
	if s.IsL || !strings.HasPrefix(s.Atom, "x") {
		panic(badInput("hex atom expected: " + s.String()))
	}
	b, err := hex.DecodeString(s.Atom[1:])
	if err != nil {
		panic(badInput("bad hex: " + s.String()))
	}
	return string(b)
}

type badInput string
