package main

// Translator: regenerates coq/gen/SourceFacts.v from the Go sources of /repo on every run:
//   - the lexer rule table of internal/route/parser.go (state -> ordered rules, includes inlined,
//     every pattern normalised to a byte class + "+" flag, push/pop actions),
//   - the <char> / <any> classes documented in internal/route/README.md,
//   - the order of the matchStyle* constants in internal/route/leaf.go,
//   - httpMethods of router.go.
// If a source is refactored beyond what is recognised here, the translator fails (exit 3) and the
// previously generated file is kept.

import (
	"fmt"
	"go/ast"
	"go/parser"
	"go/token"
	"os"
	"path/filepath"
	"regexp"
	"sort"
	"strconv"
	"strings"
)

type xrule struct {
	name   string
	cls    [256]bool
	plus   bool
	action string // "", "push:<state>", "pop"
	incl   string
}

func xfail(format string, a ...interface{}) {
	fmt.Fprintf(os.Stderr, "xlate: "+format+"\n", a...)
	os.Exit(3)
}

// parsePattern understands: a single (possibly escaped) byte, \s, a bracket class with ranges and
// escapes, each optionally followed by "+".
func parsePattern(p string) (cls [256]bool, plus bool) {
	orig := p
	if strings.HasSuffix(p, "+") && len(p) > 1 && !strings.HasSuffix(p, `\+`) {
		plus = true
		p = p[:len(p)-1]
	}
	switch {
	case p == `\s`:
		for _, c := range []byte{'\t', '\n', '\f', '\r', ' '} {
			cls[c] = true
		}
	case len(p) == 1:
		cls[p[0]] = true
	case len(p) == 2 && p[0] == '\\':
		cls[p[1]] = true
	case strings.HasPrefix(p, "[") && strings.HasSuffix(p, "]"):
		body := p[1 : len(p)-1]
		if strings.HasPrefix(body, "^") {
			xfail("negated class in %q", orig)
		}
		var items []byte
		var escaped []bool
		for i := 0; i < len(body); i++ {
			if body[i] == '\\' && i+1 < len(body) {
				i++
				items = append(items, body[i])
				escaped = append(escaped, true)
			} else {
				items = append(items, body[i])
				escaped = append(escaped, false)
			}
		}
		for i := 0; i < len(items); i++ {
			if i+2 < len(items) && items[i+1] == '-' && !escaped[i+1] {
				for c := int(items[i]); c <= int(items[i+2]); c++ {
					cls[c] = true
				}
				i += 2
			} else {
				cls[items[i]] = true
			}
		}
	default:
		xfail("unrecognised lexer pattern %q", orig)
	}
	// cross-check the normalisation against Go's regexp on all 256 bytes
	re, err := regexp.Compile("^(?:" + strings.TrimSuffix(orig, "+") + ")$")
	if orig != p+"+" && orig != p {
		xfail("pattern bookkeeping %q", orig)
	}
	if err != nil {
		xfail("pattern %q does not compile: %v", orig, err)
	}
	for c := 0; c < 128; c++ {
		if re.MatchString(string(rune(c))) != cls[c] {
			xfail("class normalisation of %q disagrees with regexp on byte %d", orig, c)
		}
	}
	return
}

func clsRanges(cls [256]bool) string {
	var parts []string
	for c := 0; c < 256; c++ {
		if cls[c] {
			d := c
			for d+1 < 256 && cls[d+1] {
				d++
			}
			parts = append(parts, fmt.Sprintf("(%d,%d)", c, d))
			c = d
		}
	}
	return "[" + strings.Join(parts, "; ") + "]%N"
}

func coqStr(s string) string {
	var parts []string
	for i := 0; i < len(s); i++ {
		parts = append(parts, strconv.Itoa(int(s[i])))
	}
	return "[" + strings.Join(parts, ";") + "]%N"
}

func stringLit(e ast.Expr) (string, bool) {
	if bl, ok := e.(*ast.BasicLit); ok && bl.Kind == token.STRING {
		s, err := strconv.Unquote(bl.Value)
		return s, err == nil
	}
	return "", false
}

func xlate(repo string) string {
	fset := token.NewFileSet()
	// ---- lexer rules
	f, err := parser.ParseFile(fset, filepath.Join(repo, "internal/route/parser.go"), nil, 0)
	if err != nil {
		xfail("%v", err)
	}
	states := map[string][]xrule{}
	var order []string
	ast.Inspect(f, func(n ast.Node) bool {
		cl, ok := n.(*ast.CompositeLit)
		if !ok {
			return true
		}
		sel, ok := cl.Type.(*ast.SelectorExpr)
		if !ok || sel.Sel.Name != "Rules" {
			return true
		}
		for _, el := range cl.Elts {
			kv, ok := el.(*ast.KeyValueExpr)
			if !ok {
				xfail("lexer.Rules entry is not key: value")
			}
			st, ok := stringLit(kv.Key)
			if !ok {
				xfail("state name is not a string literal")
			}
			rl, ok := kv.Value.(*ast.CompositeLit)
			if !ok {
				xfail("rules of state %s are not a composite literal", st)
			}
			var rules []xrule
			for _, re := range rl.Elts {
				switch r := re.(type) {
				case *ast.CallExpr: // lexer.Include("X")
					s, ok := r.Fun.(*ast.SelectorExpr)
					if !ok || s.Sel.Name != "Include" || len(r.Args) != 1 {
						xfail("unrecognised rule expression in state %s", st)
					}
					inc, _ := stringLit(r.Args[0])
					rules = append(rules, xrule{incl: inc})
				case *ast.CompositeLit:
					var xr xrule
					for _, fe := range r.Elts {
						fkv, ok := fe.(*ast.KeyValueExpr)
						if !ok {
							xfail("positional rule fields in state %s", st)
						}
						switch fkv.Key.(*ast.Ident).Name {
						case "Name":
							xr.name, _ = stringLit(fkv.Value)
						case "Pattern":
							p, ok := stringLit(fkv.Value)
							if !ok {
								xfail("pattern of %s is not a literal", xr.name)
							}
							xr.cls, xr.plus = parsePattern(p)
						case "Action":
							call, ok := fkv.Value.(*ast.CallExpr)
							if !ok {
								xfail("action of %s is not a call", xr.name)
							}
							switch call.Fun.(*ast.SelectorExpr).Sel.Name {
							case "Push":
								s, _ := stringLit(call.Args[0])
								xr.action = "push:" + s
							case "Pop":
								xr.action = "pop"
							default:
								xfail("unknown action of %s", xr.name)
							}
						default:
							xfail("unknown rule field in state %s", st)
						}
					}
					rules = append(rules, xr)
				default:
					xfail("unrecognised rule in state %s", st)
				}
			}
			states[st] = rules
			order = append(order, st)
		}
		return false
	})
	// states in the fixed order of the model; "Common" only exists to be included
	want := []string{"Root", "Segment", "Bind", "BindParameter", "BindParameterRegexValue"}
	idx := map[string]int{}
	for i, s := range want {
		if _, ok := states[s]; !ok {
			xfail("state %s missing", s)
		}
		idx[s] = i
	}
	for _, s := range order {
		if _, ok := idx[s]; !ok && s != "Common" {
			xfail("unexpected lexer state %s", s)
		}
	}
	var sb strings.Builder
	sb.WriteString("(* GENERATED by harness/xlate.go from the Go sources of the repository - do not edit. *)\nRequire Import Base Lexer.\n\n")
	sb.WriteString("Definition src_table : table :=\n  [")
	for i, st := range want {
		if i > 0 {
			sb.WriteString(";\n   ")
		}
		var flat []xrule
		for _, r := range states[st] {
			if r.incl != "" {
				inc, ok := states[r.incl]
				if !ok {
					xfail("Include(%q) of an unknown state", r.incl)
				}
				flat = append(flat, inc...)
			} else {
				flat = append(flat, r)
			}
		}
		sb.WriteString("[")
		for j, r := range flat {
			if j > 0 {
				sb.WriteString(";\n    ")
			}
			act := "ANone"
			if r.action == "pop" {
				act = "APop"
			} else if strings.HasPrefix(r.action, "push:") {
				k, ok := idx[r.action[5:]]
				if !ok {
					xfail("push to unknown state %s", r.action)
				}
				act = fmt.Sprintf("(APush %d)", k)
			}
			sb.WriteString(fmt.Sprintf("mkrule %s %s %v %s", coqStr(r.name), clsRanges(r.cls), r.plus, act))
		}
		sb.WriteString("]")
	}
	sb.WriteString("].\n\n")

	// ---- documented classes of README.md
	readme, err := os.ReadFile(filepath.Join(repo, "internal/route/README.md"))
	if err != nil {
		xfail("%v", err)
	}
	var classOf func(name string) [256]bool
	depth := 0
	classOf = func(name string) [256]bool {
		var cls [256]bool
		depth++
		defer func() { depth-- }()
		if depth > 8 {
			xfail("README: recursive definition of <%s>", name)
		}
		re := regexp.MustCompile(`(?m)^<` + name + `> ::= (.*)$`)
		m := re.FindSubmatch(readme)
		if m == nil {
			xfail("README: no definition of <%s>", name)
		}
		line := strings.TrimSpace(string(m[1]))
		for i := 0; i < len(line); {
			switch {
			case line[i] == ' ' || line[i] == '|':
				i++
			case line[i] == '[' && i+4 < len(line) && line[i+2] == '-' && line[i+4] == ']':
				for c := int(line[i+1]); c <= int(line[i+3]); c++ {
					cls[c] = true
				}
				i += 5
			case line[i] == '<': // a reference to another class, e.g. <any> ::= <char> | ...
				j := strings.IndexByte(line[i:], '>')
				if j < 0 {
					xfail("README: definition of <%s> not understood at %q", name, line[i:])
				}
				sub := classOf(line[i+1 : i+j])
				for c := range sub {
					if sub[c] {
						cls[c] = true
					}
				}
				i += j + 1
			case line[i] == '"':
				j := i + 1
				for j < len(line) && line[j] != '"' {
					if line[j] == '\\' {
						j++
					}
					j++
				}
				if j >= len(line) {
					xfail("README: unterminated string in <%s>", name)
				}
				str, err := strconv.Unquote(line[i : j+1])
				if err != nil || len(str) != 1 {
					xfail("README: alternative %s of <%s>", line[i:j+1], name)
				}
				cls[str[0]] = true
				i = j + 1
			default:
				xfail("README: definition of <%s> not understood at %q", name, line[i:])
			}
		}
		return cls
	}
	sb.WriteString("Definition doc_char_class : list (N * N) := " + clsRanges(classOf("char")) + ".\n")
	sb.WriteString("Definition doc_any_class : list (N * N) := " + clsRanges(classOf("any")) + ".\n\n")

	// ---- order of the match styles (leaf.go) and the HTTP methods (router.go)
	lf, err := parser.ParseFile(fset, filepath.Join(repo, "internal/route/leaf.go"), nil, 0)
	if err != nil {
		xfail("%v", err)
	}
	var styles []string
	for _, d := range lf.Decls {
		gd, ok := d.(*ast.GenDecl)
		if !ok || gd.Tok != token.CONST {
			continue
		}
		for _, sp := range gd.Specs {
			for _, n := range sp.(*ast.ValueSpec).Names {
				if strings.HasPrefix(n.Name, "matchStyle") {
					styles = append(styles, strings.TrimPrefix(n.Name, "matchStyle"))
				}
			}
		}
	}
	sb.WriteString("Definition src_match_styles : list str := [" + strings.Join(mapStr(styles, coqStr), "; ") + "].\n")
	rf, err := parser.ParseFile(fset, filepath.Join(repo, "router.go"), nil, 0)
	if err != nil {
		xfail("%v", err)
	}
	var methods []string
	ast.Inspect(rf, func(n ast.Node) bool {
		vs, ok := n.(*ast.ValueSpec)
		if !ok || len(vs.Names) != 1 || vs.Names[0].Name != "httpMethods" || len(vs.Values) != 1 {
			return true
		}
		for _, e := range vs.Values[0].(*ast.CompositeLit).Elts {
			if s, ok := e.(*ast.SelectorExpr); ok {
				methods = append(methods, strings.ToUpper(strings.TrimPrefix(s.Sel.Name, "Method")))
			}
		}
		return false
	})
	sb.WriteString("Definition src_http_methods : list str := [" + strings.Join(mapStr(methods, coqStr), "; ") + "].\n")
	_ = sort.Strings
	return sb.String()
}

func mapStr(l []string, f func(string) string) []string {
	var out []string
	for _, s := range l {
		out = append(out, f(s))
	}
	return out
}
