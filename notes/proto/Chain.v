(* Design-time prototype: handler chain (context.go run/Next with the F5 repair),
   fuel-indexed big-step semantics, and the order theorem (no skip, no repeat). *)
From Coq Require Import List Arith Bool Lia.
Import ListNotations.

Inductive act := AWrite | ANext | ACancel | APanic.
Record handler := { acts : list act; writes_on_return : bool }.

Inductive event := Enter (i : nat) | Exit (i : nat).

Record st := { idx : nat; written : bool; cancelled : bool; trace : list event (* newest first *) }.

Inductive outcome := Done (s : st) | Panicked (s : st) | OutOfFuel.

Definition set_idx (s : st) (i : nat) := {| idx := i; written := written s; cancelled := cancelled s; trace := trace s |}.
Definition set_written (s : st) := {| idx := idx s; written := true; cancelled := cancelled s; trace := trace s |}.
Definition set_cancelled (s : st) := {| idx := idx s; written := written s; cancelled := true; trace := trace s |}.
Definition log (s : st) (e : event) := {| idx := idx s; written := written s; cancelled := cancelled s; trace := e :: trace s |}.

Section Exec.
Variable runf : st -> outcome.
Fixpoint exec (l : list act) (s : st) {struct l} : outcome :=
  match l with
  | [] => Done s
  | a :: l' =>
      match a with
      | AWrite => exec l' (set_written s)
      | ACancel => exec l' (set_cancelled s)
      | APanic => Panicked s
      | ANext =>
          match runf (set_idx s (S (idx s))) with
          | Done s1 => exec l' (set_idx s1 (pred (idx s1)))
          | o => o
          end
      end
  end.
End Exec.

Fixpoint enters (t : list event) : list nat :=
  match t with [] => [] | Enter i :: t' => enters t' ++ [i] | Exit _ :: t' => enters t' end.

Definition started (s : st) : nat := length (enters (trace s)).
Definition consecutive (s : st) : Prop := enters (trace s) = seq 0 (started s).

Lemma started_set_idx s i : started (set_idx s i) = started s. Proof. reflexivity. Qed.
Lemma started_set_written s : started (set_written s) = started s. Proof. reflexivity. Qed.
Lemma started_set_cancelled s : started (set_cancelled s) = started s. Proof. reflexivity. Qed.
Lemma started_log_exit s i : started (log s (Exit i)) = started s. Proof. reflexivity. Qed.
Lemma started_log_enter s i : started (log s (Enter i)) = S (started s).
Proof. unfold started. cbn. rewrite app_length. cbn. lia. Qed.
Lemma cons_set_idx s i : consecutive (set_idx s i) <-> consecutive s. Proof. reflexivity. Qed.
Lemma cons_set_written s : consecutive (set_written s) <-> consecutive s. Proof. reflexivity. Qed.
Lemma cons_set_cancelled s : consecutive (set_cancelled s) <-> consecutive s. Proof. reflexivity. Qed.
Lemma cons_log_exit s i : consecutive (log s (Exit i)) <-> consecutive s. Proof. reflexivity. Qed.
Lemma cons_log_enter s : consecutive s -> consecutive (log s (Enter (started s))).
Proof.
  unfold consecutive. rewrite started_log_enter. intros H. cbn [trace log enters].
  rewrite seq_S. cbn [plus]. rewrite <- H. reflexivity.
Qed.
Lemma idx_set_idx s i : idx (set_idx s i) = i. Proof. reflexivity. Qed.
Lemma idx_set_written s : idx (set_written s) = idx s. Proof. reflexivity. Qed.
Lemma idx_set_cancelled s : idx (set_cancelled s) = idx s. Proof. reflexivity. Qed.
Lemma idx_log s e : idx (log s e) = idx s. Proof. reflexivity. Qed.
Global Opaque started consecutive.
#[local] Hint Rewrite started_set_idx started_set_written started_set_cancelled started_log_exit started_log_enter
     idx_set_idx idx_set_written idx_set_cancelled idx_log : st.
Ltac sn := autorewrite with st in *.

Section Chain.
Variable hs : list handler.
Variable n : nat.
Hypothesis n_def : n = length hs.

Fixpoint run (fuel : nat) (s : st) {struct fuel} : outcome :=
  match fuel with
  | O => OutOfFuel
  | S f =>
      if n <? idx s then Done s
      else if cancelled s then Done s
      else
        match nth_error hs (idx s) with
        | None => Done (set_idx s (S (idx s)))            (* h == nil *)
        | Some h =>
            let i := idx s in
            match exec (run f) (acts h) (log s (Enter i)) with
            | Done s1 =>
                let s2 := set_idx (log s1 (Exit i)) (S (idx s1)) in
                let s3 := if writes_on_return h then set_written s2 else s2 in
                if written s3 then Done s3 else run f s3
            | o => o
            end
        end
  end.

(* at the top of the loop *)
Definition top_ok (s : st) := consecutive s /\ started s <= n /\ (idx s = started s \/ (idx s = S n /\ started s = n)).
(* inside a handler body, between actions *)
Definition body_ok (s : st) := consecutive s /\ started s <= n /\ 1 <= started s /\
                               (S (idx s) = started s \/ (idx s = n /\ started s = n)).

Definition post_top (s0 : st) (o : outcome) : Prop :=
  match o with
  | Done s' => top_ok s' /\ idx s0 <= idx s' /\ started s0 <= started s'
  | Panicked s' => consecutive s' /\ started s' <= n
  | OutOfFuel => False
  end.

Definition post_body (s0 : st) (o : outcome) : Prop :=
  match o with
  | Done s' => body_ok s' /\ started s0 <= started s'
  | Panicked s' => consecutive s' /\ started s' <= n
  | OutOfFuel => False
  end.

Lemma exec_ok f (IH : forall s, top_ok s -> S (S n) - idx s <= f -> post_top s (run f s)) :
  forall l s1, body_ok s1 -> 2 <= f -> S n - idx s1 <= f -> post_body s1 (exec (run f) l s1).
Proof.
  induction l as [|a l IHl]; intros s1 B1 F2 Fu.
  - cbn. split; [exact B1 | lia].
  - destruct a; cbn [exec].
    + assert (B : body_ok (set_written s1)).
      { destruct B1 as (C & S1 & P & Hi). unfold body_ok. sn. rewrite cons_set_written. auto. }
      specialize (IHl _ B F2). sn. specialize (IHl Fu).
      destruct (exec (run f) l (set_written s1)); cbn in *; sn; auto.
    + (* ANext *)
      set (s1' := set_idx s1 (S (idx s1))).
      assert (T1 : top_ok s1').
      { destruct B1 as (C1 & S1 & P1 & Hi). unfold top_ok. subst s1'. sn. rewrite cons_set_idx.
        repeat split; try assumption. destruct Hi as [E|[E1 E2]]; [left; lia | right; lia]. }
      assert (F1 : S (S n) - idx s1' <= f) by (subst s1'; sn; lia).
      specialize (IH s1' T1 F1).
      destruct (run f s1') as [s2|s2|] eqn:R; cbn [post_top] in IH; [| exact IH | exact IH].
      destruct IH as (T2 & Q1 & Q2). subst s1'. sn.
      destruct B1 as (C1 & S1 & P1 & Hi1). destruct T2 as (C2 & S2 & Hi2).
      assert (B2 : body_ok (set_idx s2 (pred (idx s2)))).
      { unfold body_ok. sn. rewrite cons_set_idx. repeat split; try assumption; try lia. }
      assert (Fu2 : S n - idx (set_idx s2 (pred (idx s2))) <= f) by (sn; lia).
      specialize (IHl _ B2 F2 Fu2).
      destruct (exec (run f) l (set_idx s2 (pred (idx s2)))); cbn in *; sn; auto.
      destruct IHl; split; [assumption | lia].
    + assert (B : body_ok (set_cancelled s1)).
      { destruct B1 as (C & S1 & P & Hi). unfold body_ok. sn. rewrite cons_set_cancelled. auto. }
      specialize (IHl _ B F2). sn. specialize (IHl Fu).
      destruct (exec (run f) l (set_cancelled s1)); cbn in *; sn; auto.
    + destruct B1 as (C1 & S1 & _). split; assumption.
Qed.

Lemma run_ok : forall fuel s, top_ok s -> S (S n) - idx s <= fuel -> post_top s (run fuel s).
Proof.
  induction fuel as [|f IH]; intros s T F.
  - destruct T as (_ & Hs & [E|[E _]]); lia.
  - cbn [run]. destruct (n <? idx s) eqn:Lt.
    { cbn. split; [exact T | split; lia]. }
    apply Nat.ltb_ge in Lt.
    destruct (cancelled s) eqn:C.
    { cbn. split; [exact T | split; lia]. }
    destruct T as (Cs & Sn & Hi). destruct Hi as [Hi|[Hi _]]; [|lia].
    destruct (nth_error hs (idx s)) as [h|] eqn:N.
    2:{ apply nth_error_None in N. rewrite <- n_def in N. assert (idx s = n) by lia.
        cbn. unfold top_ok. sn. rewrite cons_set_idx. repeat split; try assumption; try lia. }
    assert (Hlt : idx s < n) by (rewrite n_def; apply nth_error_Some; congruence).
    set (s0 := log s (Enter (idx s))).
    assert (B0 : body_ok s0).
    { unfold body_ok. subst s0. sn. rewrite Hi. repeat split; try lia.
      apply cons_log_enter, Cs. }
    assert (X := exec_ok f IH (acts h) s0 B0).
    assert (F2 : 2 <= f) by lia.
    assert (Fu0 : S n - idx s0 <= f) by (subst s0; sn; lia).
    specialize (X F2 Fu0).
    destruct (exec (run f) (acts h) s0) as [s1|s1|] eqn:EE; cbn [post_body] in X; [| exact X | contradiction].
    destruct X as (B1 & St1). subst s0. sn.
    set (s2 := set_idx (log s1 (Exit (idx s))) (S (idx s1))).
    set (s3 := if writes_on_return h then set_written s2 else s2).
    assert (X3 : (consecutive s3 <-> consecutive s1) /\ started s3 = started s1 /\ idx s3 = S (idx s1)).
    { subst s3 s2. destruct (writes_on_return h); sn;
        rewrite ?cons_set_written, ?cons_set_idx, ?cons_log_exit; repeat split; auto. }
    destruct X3 as (X1 & X2 & X3).
    destruct B1 as (C1 & S1 & P1 & Hi1).
    assert (T3 : top_ok s3).
    { unfold top_ok. rewrite X1, X2, X3. repeat split; try assumption.
      destruct Hi1 as [E|[E1 E2]]; [left; lia | right; lia]. }
    destruct (written s3) eqn:W3.
    { cbn. split; [exact T3 | split; lia]. }
    assert (F3 : S (S n) - idx s3 <= f) by lia.
    specialize (IH s3 T3 F3).
    destruct (run f s3); cbn [post_top] in *; [|exact IH|exact IH].
    destruct IH as (? & ? & ?). split; [assumption | split; lia].
Qed.

Definition init : st := {| idx := 0; written := false; cancelled := false; trace := [] |}.

Theorem order_no_skip_no_repeat :
  match run (S (S n)) init with
  | Done s | Panicked s => consecutive s
  | OutOfFuel => False
  end.
Proof.
  assert (T : top_ok init).
  { unfold top_ok. Transparent started consecutive. unfold consecutive, started. cbn. repeat split; lia. }
  assert (P := run_ok (S (S n)) init T). cbn [idx init] in P. specialize (P ltac:(lia)).
  destruct (run (S (S n)) init); cbn in P; [apply P | apply P | exact P].
Qed.
End Chain.
Print Assumptions order_no_skip_no_repeat.
