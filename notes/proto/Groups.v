(* Design-time prototype: the C02 core lemma - binds of a segment regex receive
   exactly the part matched by their own expression. *)
From Coq Require Import List NArith Bool Lia Arith.
Import ListNotations.
Require Import Regex.

Fixpoint gidx (r : re) : list nat :=
  match r with
  | Eps | Chr _ => []
  | Cat a b | Alt a b => gidx a ++ gidx b
  | Star a => gidx a
  | Grp i a => i :: gidx a
  end.

Definition ext (r : re) (c c' : caps) : Prop :=
  exists d, c' = d ++ c /\ Forall (fun e => In (fst e) (gidx r)) d.

Lemma ext_refl r c : ext r c c.
Proof. exists []. split; [reflexivity | constructor]. Qed.

Lemma ext_weaken (r r' : re) c c' : incl (gidx r) (gidx r') -> ext r c c' -> ext r' c c'.
Proof.
  intros I (d & -> & F). exists d. split; [reflexivity|].
  eapply Forall_impl; [|exact F]. intros e He. apply I, He.
Qed.

Lemma ext_trans r c1 c2 c3 : ext r c1 c2 -> ext r c2 c3 -> ext r c1 c3.
Proof.
  intros (d1 & -> & F1) (d2 & -> & F2). exists (d2 ++ d1). split; [apply app_assoc|].
  apply Forall_app; split; assumption.
Qed.

Section S.
Context {R : Type}.

(* soundness with the frame condition on captures *)
Lemma m_sound_caps r : forall s c (k : str -> caps -> option R) x,
  m r s c k = Some x ->
  exists s1 s2 c', s = s1 ++ s2 /\ matches r s1 /\ ext r c c' /\ k s2 c' = Some x.
Proof.
  induction r as [|p|a IHa b IHb|a IHa b IHb|a IHa|i a IHa]; intros s c k x H.
  - exists [], s, c. repeat split; [constructor | apply ext_refl | exact H].
  - destruct s as [|y s']; [discriminate|]. cbn [m] in H. destruct (p y) eqn:E; [|discriminate].
    exists [y], s', c. repeat split; [constructor; exact E | apply ext_refl | exact H].
  - cbn [m] in H. apply IHa in H as (s1 & s2 & c1 & -> & Ma & X1 & H).
    apply IHb in H as (s3 & s4 & c2 & -> & Mb & X2 & H).
    exists (s1 ++ s3), s4, c2. rewrite app_assoc. repeat split; [constructor; assumption | | exact H].
    eapply ext_trans; (eapply ext_weaken; [|eassumption]); cbn; intros z Hz; apply in_or_app; auto.
  - cbn [m] in H. destruct (m a s c k) eqn:E.
    + inversion H; subst. apply IHa in E as (s1 & s2 & c1 & -> & Ma & X1 & E).
      exists s1, s2, c1. repeat split; [apply m_altl; assumption | | exact E].
      eapply ext_weaken; [|eassumption]. cbn; intros z Hz; apply in_or_app; auto.
    + apply IHb in H as (s1 & s2 & c1 & -> & Mb & X1 & H).
      exists s1, s2, c1. repeat split; [apply m_altr; assumption | | exact H].
      eapply ext_weaken; [|eassumption]. cbn; intros z Hz; apply in_or_app; auto.
  - cbn [m] in H. remember (length s) as n eqn:Hn. clear Hn.
    revert s c H. induction n as [|n IHn]; intros s c H; cbn [loop] in H.
    + exists [], s, c. repeat split; [constructor | apply ext_refl | exact H].
    + destruct (m a s c _) eqn:E.
      * inversion H; subst. apply IHa in E as (s1 & s2 & c1 & -> & Ma & X1 & E).
        cbv beta in E.
        destruct (Nat.ltb (length s2) (length (s1 ++ s2))) eqn:L; [|discriminate].
        apply IHn in E as (s3 & s4 & c2 & -> & Ms & X2 & E).
        exists (s1 ++ s3), s4, c2. rewrite app_assoc. repeat split; [| |exact E].
        -- apply m_star1; try assumption.
           intros ->. apply Nat.ltb_lt in L. cbn in L. lia.
        -- eapply ext_trans; [|exact X2]. exact X1.
      * exists [], s, c. repeat split; [constructor | apply ext_refl | exact H].
  - cbn [m] in H. apply IHa in H as (s1 & s2 & c1 & -> & Ma & X1 & H).
    exists s1, s2, ((i, s1) :: c1).
    repeat split; [constructor; assumption | | ].
    + destruct X1 as (d & -> & F). exists ((i, s1) :: d). split; [reflexivity|].
      constructor; [left; reflexivity|]. eapply Forall_impl; [|exact F]. intros e He. right. exact He.
    + replace (firstn (length (s1 ++ s2) - length s2) (s1 ++ s2)) with s1 in H; [exact H|].
      rewrite app_length, Nat.add_sub, firstn_app, Nat.sub_diag, firstn_all. cbn. now rewrite app_nil_r.
Qed.
Lemma m_grp_sound i a s c (k : str -> caps -> option R) x :
  m (Grp i a) s c k = Some x ->
  exists s1 s2 c1, s = s1 ++ s2 /\ matches a s1 /\ ext a c c1 /\ k s2 ((i, s1) :: c1) = Some x.
Proof.
  intros H. cbn [m] in H. apply m_sound_caps in H as (s1 & s2 & c1 & -> & Ma & X1 & H).
  exists s1, s2, c1. repeat split; try assumption.
  replace (firstn (length (s1 ++ s2) - length s2) (s1 ++ s2)) with s1 in H; [exact H|].
  rewrite app_length, Nat.add_sub, firstn_app, Nat.sub_diag, firstn_all. cbn. now rewrite app_nil_r.
Qed.
End S.

(* ---- segment-shaped regexes ---- *)
Inductive piece := PLit (l : str) | PBind (i : nat) (e : re).

Fixpoint lit_re (l : str) : re :=
  match l with [] => Eps | x :: l' => Cat (Chr (N.eqb x)) (lit_re l') end.

Definition piece_re (p : piece) : re :=
  match p with PLit l => lit_re l | PBind i e => Grp i e end.

Fixpoint seg_re (ps : list piece) : re :=
  match ps with [] => Eps | p :: ps' => Cat (piece_re p) (seg_re ps') end.

Definition piece_adm (p : piece) (part : str) : Prop :=
  match p with PLit l => part = l | PBind _ e => matches e part end.

Fixpoint lookup (i : nat) (c : caps) : option str :=
  match c with [] => None | (j, v) :: c' => if Nat.eqb i j then Some v else lookup i c' end.

Lemma lit_re_matches l s : matches (lit_re l) s -> s = l.
Proof.
  revert s. induction l as [|x l IH]; intros s M; cbn in M.
  - inversion M; reflexivity.
  - inversion M; subst. inversion H1; subst. apply N.eqb_eq in H0. subst. cbn. f_equal. apply IH, H3.
Qed.

Lemma lit_re_gidx l : gidx (lit_re l) = [].
Proof. induction l; cbn; auto. Qed.

Lemma lookup_skip i d c : Forall (fun e => fst e <> i) d -> lookup i (d ++ c) = lookup i c.
Proof.
  induction 1 as [|[j v] d Hj _ IH]; [reflexivity|]. cbn in *.
  destruct (Nat.eqb_spec i j); [congruence | exact IH].
Qed.

(* top-level indices: the binds' own group numbers *)
Fixpoint tops (ps : list piece) : list nat :=
  match ps with [] => [] | PLit _ :: ps' => tops ps' | PBind i _ :: ps' => i :: tops ps' end.

(* well-numbered: a bind's index differs from every group index occurring later *)
Fixpoint wnum (ps : list piece) : Prop :=
  match ps with
  | [] => True
  | PLit _ :: ps' => wnum ps'
  | PBind i e :: ps' => ~ In i (gidx (seg_re ps')) /\ wnum ps'
  end.

Lemma seg_sound_gen ps : wnum ps -> forall s c0 cf,
  m (seg_re ps) s c0 (fun s' c => match s' with [] => Some c | _ => None end) = Some cf ->
  exists parts, s = concat parts /\ Forall2 piece_adm ps parts /\
    ext (seg_re ps) c0 cf /\
    (forall n i e part, nth_error ps n = Some (PBind i e) -> nth_error parts n = Some part ->
                        lookup i cf = Some part).
Proof.
  induction ps as [|p ps IH]; intros W s c0 cf H.
  - cbn in H. destruct s; [|discriminate]. inversion H; subst.
    exists []. repeat split; [constructor | apply ext_refl |]. intros [|n]; discriminate.
  - cbn [seg_re m] in H. destruct p as [l|i e].
    + cbn [piece_re] in H.
      apply m_sound_caps in H as (s1 & s2 & c1 & -> & Mp & X1 & H).
      apply IH in H as (parts & -> & F & X2 & L); [|exact W].
      exists (s1 :: parts). repeat split.
      * constructor; [|exact F]. cbn. apply lit_re_matches, Mp.
      * eapply ext_trans; (eapply ext_weaken; [|eassumption]); cbn; intros z Hz; apply in_or_app; auto.
      * intros [|n] j e part Hn Hp; cbn in Hn, Hp; [discriminate|]. eapply L; eassumption.
    + cbn [piece_re] in H. destruct W as [Wi W'].
      apply m_grp_sound in H as (s1 & s2 & c1 & -> & Me & X1 & H).
      apply IH in H as (parts & -> & F & X2 & L); [|exact W'].
      exists (s1 :: parts). repeat split.
      * constructor; [|exact F]. exact Me.
      * destruct X1 as (d1 & -> & F1). destruct X2 as (d2 & -> & F2).
        exists (d2 ++ (i, s1) :: d1). split; [rewrite <- app_assoc; reflexivity|].
        apply Forall_app; split.
        -- eapply Forall_impl; [|exact F2]. intros z Hz. cbn. right. apply in_or_app. auto.
        -- constructor; [left; reflexivity|]. eapply Forall_impl; [|exact F1].
           intros z Hz. cbn. right. apply in_or_app. auto.
      * intros [|n] j e' part Hn Hp; cbn in Hn, Hp.
        -- inversion Hn; subst j e'. inversion Hp; subst part.
           destruct X2 as (d2 & -> & F2).
           rewrite lookup_skip.
           2:{ eapply Forall_impl; [|exact F2]. intros [j v] Hj Heq. cbn in *. subst. contradiction. }
           cbn. now rewrite Nat.eqb_refl.
        -- eapply L; eassumption.
Qed.

Theorem seg_full_sound ps s cf : wnum ps -> full (seg_re ps) s = Some cf ->
  exists parts, s = concat parts /\ Forall2 piece_adm ps parts /\
    (forall n i e part, nth_error ps n = Some (PBind i e) -> nth_error parts n = Some part ->
                        lookup i cf = Some part).
Proof.
  intros W H. apply seg_sound_gen in H as (parts & ? & ? & _ & ?); eauto.
Qed.
Print Assumptions seg_full_sound.
