(* Design-time prototype: route tree matcher (segment-list level), the declarative
   "admits" relation, and dispatch-iff-admitted for well-formed trees. *)
From Coq Require Import List Arith Bool Lia.
Import ListNotations.

Section T.
Variable seg : Type.                      (* a request path segment *)
Variable kind : Type.                     (* static / regex / placeholder (non match-all) segment kinds *)
Variable seg_adm : kind -> seg -> bool.   (* does the kind admit this one segment *)
Variable leafid : Type.
Variable hdr_ok : leafid -> bool.         (* header constraint of the leaf, for the request at hand *)

(* node kinds: ordinary, or match-all with a capture limit (0 = unlimited) *)
Inductive nk := KOrd (k : kind) | KAll (cap : nat).

Definition cap_ok (cap taken : nat) : bool := (cap =? 0) || (taken <=? cap).

Record leaf := { lk : nk; lid : leafid }.

Inductive tree := Node (subs : list (nk * tree)) (leaves : list leaf).

(* --- matcher (mirrors matchNextSegment / matchSubtree / matchLeaf / matchAll) --- *)
Definition leaf_match1 (l : leaf) (s : seg) : bool :=
  match lk l with KOrd k => seg_adm k s && hdr_ok (lid l) | KAll _ => hdr_ok (lid l) end.

Fixpoint first_leaf (ls : list leaf) (s : seg) : option leafid :=
  match ls with [] => None | l :: ls' => if leaf_match1 l s then Some (lid l) else first_leaf ls' s end.

(* trailing match-all leaf: last leaf, if match-all, takes all remaining (>= 2) segments *)
Definition all_leaf_fallback (ls : list leaf) (total : nat) : option leafid :=
  match last (map Some ls) None with
  | Some l => match lk l with
              | KAll cap => if cap_ok cap total && hdr_ok (lid l) then Some (lid l) else None
              | KOrd _ => None
              end
  | None => None
  end.

Section Grow.
Variable mt : list seg -> option leafid.    (* the matcher of the match-all sub-tree's node *)
Variable cap : nat.
Fixpoint grow (fuel : nat) (taken : nat) (r : list seg) {struct fuel} : option leafid :=
  match fuel with
  | O => None
  | S fuel' =>
      if cap_ok cap taken then
        match mt r with
        | Some x => Some x
        | None => match r with
                  | _ :: (_ :: _) as r' => grow fuel' (S taken) (tl r)
                  | _ => None
                  end
        end
      else None
  end.
End Grow.

Fixpoint mtree (t : tree) (segs : list seg) {struct t} : option leafid :=
  match t with
  | Node subs leaves =>
      match segs with
      | [] => None
      | [s] => first_leaf leaves s
      | s :: rest =>
          let fix go (l : list (nk * tree)) : option leafid :=
              match l with
              | [] => all_leaf_fallback leaves (length segs)
              | (KOrd k, st) :: l' =>
                  if seg_adm k s then match mtree st rest with Some x => Some x | None => go l' end else go l'
              | (KAll cap, st) :: _ =>
                  match grow (mtree st) cap (length rest) 1 rest with
                  | Some x => Some x
                  | None => all_leaf_fallback leaves (length segs)      (* "break" *)
                  end
              end in
          go subs
      end
  end.

(* --- declarative side: root-to-leaf paths of the tree and the admits relation --- *)
Fixpoint paths (t : tree) : list (list nk * leafid) :=
  match t with
  | Node subs leaves =>
      map (fun l => ([lk l], lid l)) leaves ++
      (fix ps (l : list (nk * tree)) : list (list nk * leafid) :=
         match l with
         | [] => []
         | (k, st) :: l' => map (fun p => (k :: fst p, snd p)) (paths st) ++ ps l'
         end) subs
  end.

Inductive adm : list nk -> list seg -> Prop :=
| adm_last_ord k s : seg_adm k s = true -> adm [KOrd k] [s]
| adm_last_all cap s rest : cap_ok cap (S (length rest)) = true -> adm [KAll cap] (s :: rest)
| adm_cons_ord k ks s rest : ks <> [] -> seg_adm k s = true -> adm ks rest -> adm (KOrd k :: ks) (s :: rest)
| adm_cons_all cap ks taken rest : ks <> [] -> taken <> [] -> cap_ok cap (length taken) = true ->
                                  adm ks rest -> adm (KAll cap :: ks) (taken ++ rest).


(* ---------- induction principle for the nested tree ---------- *)
Section Ind.
Variable P : tree -> Prop.
Hypothesis H : forall subs leaves, Forall (fun p => P (snd p)) subs -> P (Node subs leaves).
Fixpoint tree_ind2 (t : tree) : P t :=
  match t with
  | Node subs leaves =>
      H subs leaves
        ((fix f (l : list (nk * tree)) : Forall (fun p => P (snd p)) l :=
            match l with
            | [] => Forall_nil _
            | p :: l' => Forall_cons p (tree_ind2 (snd p)) (f l')
            end) subs)
  end.
End Ind.

Definition sub_paths := 
  (fix ps (l : list (nk * tree)) : list (list nk * leafid) :=
     match l with
     | [] => []
     | (k, st) :: l' => map (fun p => (k :: fst p, snd p)) (paths st) ++ ps l'
     end).

Lemma paths_node subs leaves :
  paths (Node subs leaves) = map (fun l => ([lk l], lid l)) leaves ++ sub_paths subs.
Proof. reflexivity. Qed.

Lemma paths_nonempty t : forall ks id, In (ks, id) (paths t) -> ks <> [].
Proof.
  induction t as [subs leaves IH] using tree_ind2. intros ks id HIn. rewrite paths_node in HIn.
  apply in_app_or in HIn as [HIn|HIn].
  - apply in_map_iff in HIn as (l & E & _). inversion E. discriminate.
  - induction subs as [|[k st] subs IHs]; [contradiction|]. cbn in HIn.
    apply in_app_or in HIn as [HIn|HIn].
    + apply in_map_iff in HIn as (p & E & _). inversion E. discriminate.
    + inversion IH; subst. apply IHs; assumption.
Qed.

(* ---------- soundness ---------- *)
Lemma first_leaf_sound ls s id : first_leaf ls s = Some id ->
  exists l, In l ls /\ lid l = id /\ leaf_match1 l s = true.
Proof.
  induction ls as [|l ls IH]; [discriminate|]. cbn. destruct (leaf_match1 l s) eqn:E.
  - intros X; inversion X; subst. exists l. auto.
  - intros X. destruct (IH X) as (l' & ? & ? & ?). exists l'. auto.
Qed.

Lemma last_some_in (ls : list leaf) l : last (map Some ls) None = Some l -> In l ls.
Proof.
  induction ls as [|a ls IH]; [discriminate|]. cbn [map last].
  destruct ls as [|b ls]; cbn [map] in *.
  - intros X; inversion X; subst; left; reflexivity.
  - intros X. right. apply IH. exact X.
Qed.

Lemma fallback_sound ls total id : all_leaf_fallback ls total = Some id ->
  exists l cap, In l ls /\ lid l = id /\ lk l = KAll cap /\ cap_ok cap total = true /\ hdr_ok id = true.
Proof.
  unfold all_leaf_fallback. destruct (last (map Some ls) None) as [l|] eqn:E; [|discriminate].
  destruct (lk l) as [k|cap] eqn:K; [discriminate|].
  destruct (cap_ok cap total && hdr_ok (lid l)) eqn:C; [|discriminate].
  intros X; inversion X; subst. apply andb_prop in C as [C1 C2].
  exists l, cap. repeat split; auto. apply last_some_in, E.
Qed.

Theorem mtree_sound t : forall segs id, mtree t segs = Some id ->
  exists ks, In (ks, id) (paths t) /\ adm ks segs /\ hdr_ok id = true.
Proof.
  induction t as [subs leaves IH] using tree_ind2. intros segs id H.
  rewrite paths_node. cbn [mtree] in H.
  destruct segs as [|s rest]; [discriminate|].
  destruct rest as [|s2 rest].
  - (* last segment: leaves *)
    apply first_leaf_sound in H as (l & HIn & <- & M). unfold leaf_match1 in M.
    exists [lk l]. split; [apply in_or_app; left; apply in_map_iff; exists l; auto|].
    destruct (lk l) as [k|cap] eqn:K.
    + apply andb_prop in M as [M1 M2]. split; [constructor; exact M1 | exact M2].
    + split; [|exact M]. apply adm_last_all. unfold cap_ok. cbn.
      destruct cap as [|[|c]]; reflexivity.
  - set (rest' := s2 :: rest) in *.
    assert (FB : all_leaf_fallback leaves (length (s :: rest')) = Some id ->
                 exists ks, In (ks, id) (map (fun l => ([lk l], lid l)) leaves ++ sub_paths subs) /\
                            adm ks (s :: rest') /\ hdr_ok id = true).
    { intros X. apply fallback_sound in X as (l & cap & HIn & <- & K & C & Hd).
      exists [KAll cap]. split; [apply in_or_app; left; apply in_map_iff; exists l; rewrite K; auto|].
      split; [|exact Hd]. apply adm_last_all. exact C. }
    (* the go loop over sub-trees; conclusions are about sub_paths of the suffix, lifted by incl *)
    assert (G : forall subs0, Forall (fun p => forall segs id, mtree (snd p) segs = Some id ->
                   exists ks, In (ks, id) (paths (snd p)) /\ adm ks segs /\ hdr_ok id = true) subs0 ->
               forall res,
               (fix go (l : list (nk * tree)) : option leafid :=
                  match l with
                  | [] => all_leaf_fallback leaves (length (s :: rest'))
                  | (KOrd k, st) :: l' =>
                      if seg_adm k s then match mtree st rest' with Some x => Some x | None => go l' end else go l'
                  | (KAll cap, st) :: _ =>
                      match grow (mtree st) cap (length rest') 1 rest' with
                      | Some x => Some x
                      | None => all_leaf_fallback leaves (length (s :: rest'))
                      end
                  end) subs0 = Some res ->
               (exists ks, In (ks, res) (sub_paths subs0) /\ adm ks (s :: rest') /\ hdr_ok res = true) \/
               all_leaf_fallback leaves (length (s :: rest')) = Some res).
    { clear H. induction subs0 as [|[k st] subs0 IHs]; intros F res H.
      - right. exact H.
      - inversion F as [|? ? Fst Frest]; subst. cbn [snd] in Fst. destruct k as [k|cap].
        + destruct (seg_adm k s) eqn:A.
          * destruct (mtree st rest') as [x|] eqn:M.
            -- inversion H; subst. left. apply Fst in M as (ks & HIn & Ad & Hd).
               exists (KOrd k :: ks). split; [|split; [|exact Hd]].
               ++ cbn. apply in_or_app. left. apply in_map_iff. exists (ks, res). auto.
               ++ constructor; [eapply paths_nonempty; eauto | exact A | exact Ad].
            -- destruct (IHs Frest res H) as [(ks & HIn & X)|X]; [left|right; exact X].
               exists ks. split; [cbn; apply in_or_app; right; exact HIn | exact X].
          * destruct (IHs Frest res H) as [(ks & HIn & X)|X]; [left|right; exact X].
            exists ks. split; [cbn; apply in_or_app; right; exact HIn | exact X].
        + destruct (grow (mtree st) cap (length rest') 1 rest') as [x|] eqn:Gr; [|right; exact H].
          inversion H; subst. left.
          (* grow soundness: some non-empty prefix taken, the rest matched by st *)
          assert (GS : forall fuel taken pre r, grow (mtree st) cap fuel taken r = Some res ->
                        length pre + 1 = taken -> 
                        exists more rem, r = more ++ rem /\ cap_ok cap (length (pre ++ more) + 1) = true /\
                                         mtree st rem = Some res).
          { clear - Fst. induction fuel as [|fuel IHf]; intros taken pre r Hg Hl; [discriminate|].
            cbn [grow] in Hg. destruct (cap_ok cap taken) eqn:C; [|discriminate].
            destruct (mtree st r) as [y|] eqn:M.
            - inversion Hg; subst. exists [], r. rewrite app_nil_r. repeat split; auto.
            - destruct r as [|a [|b r]]; try discriminate. cbn [tl] in Hg.
              apply (IHf _ (pre ++ [a])) in Hg; [|rewrite app_length; cbn; lia].
              destruct Hg as (more & rem & E & C2 & M2). exists (a :: more), rem.
              rewrite <- app_assoc in C2. cbn in C2. repeat split; [cbn; f_equal; exact E | exact C2 | exact M2]. }
          destruct (GS _ _ [] _ Gr eq_refl) as (more & rem & E & C & M).
          apply Fst in M as (ks & HIn & Ad & Hd).
          exists (KAll cap :: ks). split; [|split; [|exact Hd]].
          * cbn. apply in_or_app. left. apply in_map_iff. exists (ks, res). auto.
          * change (s :: rest') with ([s] ++ rest'). rewrite E.
            replace ([s] ++ more ++ rem) with ((s :: more) ++ rem) by reflexivity.
            apply adm_cons_all; [eapply paths_nonempty; eauto | discriminate | | exact Ad].
            cbn in C. cbn. rewrite Nat.add_1_r in C. exact C. }
    destruct (G subs IH id H) as [(ks & HIn & X)|X].
    + exists ks. split; [apply in_or_app; right; exact HIn | exact X].
    + apply FB, X.
Qed.

(* ---------- well-formedness (what insertion maintains) ---------- *)
Definition all_is_last {A} (isall : A -> bool) (l : list A) : Prop :=
  forall pre x post, l = pre ++ x :: post -> isall x = true -> post = [].

Definition sub_isall (p : nk * tree) : bool := match fst p with KAll _ => true | _ => false end.
Definition leaf_isall (l : leaf) : bool := match lk l with KAll _ => true | _ => false end.

Fixpoint wf (t : tree) : Prop :=
  match t with
  | Node subs leaves =>
      all_is_last sub_isall subs /\ all_is_last leaf_isall leaves /\
      (fix f (l : list (nk * tree)) : Prop := match l with [] => True | p :: l' => wf (snd p) /\ f l' end) subs
  end.

Lemma all_is_last_tl {A} (f : A -> bool) x l : all_is_last f (x :: l) -> all_is_last f l.
Proof. intros H pre y post E. apply (H (x :: pre) y post). cbn. f_equal. exact E. Qed.

Lemma all_is_last_hd {A} (f : A -> bool) x l : all_is_last f (x :: l) -> f x = true -> l = [].
Proof. intros H. apply (H [] x l). reflexivity. Qed.

(* ---------- completeness ---------- *)
Lemma adm_nonempty ks segs : adm ks segs -> segs <> [].
Proof. induction 1; try discriminate. destruct taken; [congruence | discriminate]. Qed.

Lemma first_leaf_complete ls s l : In l ls -> leaf_match1 l s = true -> first_leaf ls s <> None.
Proof.
  induction ls as [|a ls IH]; [contradiction|]. intros [->|HIn] M; cbn.
  - rewrite M. discriminate.
  - destruct (leaf_match1 a s); [discriminate | apply IH; assumption].
Qed.

Lemma sub_paths_inv subs : forall ks id, In (ks, id) (sub_paths subs) ->
  exists k ks' st, ks = k :: ks' /\ In (k, st) subs /\ In (ks', id) (paths st).
Proof.
  induction subs as [|[k st] subs IH]; intros ks id HIn; [contradiction|]. cbn in HIn.
  apply in_app_or in HIn as [HIn|HIn].
  - apply in_map_iff in HIn as ([ks' id'] & E & HIn). inversion E; subst.
    exists k, ks', st. repeat split; [left; reflexivity | exact HIn].
  - destruct (IH _ _ HIn) as (k' & ks' & st' & ? & ? & ?). exists k', ks', st'. repeat split; auto. right; auto.
Qed.

Lemma last_in_all (ls : list leaf) l : In l ls -> leaf_isall l = true -> all_is_last leaf_isall ls ->
  last (map Some ls) None = Some l.
Proof.
  induction ls as [|a ls IH]; [contradiction|]. intros HIn A W. destruct HIn as [->|HIn].
  - rewrite (all_is_last_hd _ _ _ W A). reflexivity.
  - cbn [map last]. destruct ls as [|b ls]; [contradiction|]. cbn [map].
    apply IH; [exact HIn | exact A | eapply all_is_last_tl; exact W].
Qed.

Lemma cap_ok_mono cap a b : a <= b -> cap_ok cap b = true -> cap_ok cap a = true.
Proof.
  unfold cap_ok. intros L H. apply orb_true_iff in H as [H|H]; apply orb_true_iff; [left; exact H|right].
  apply Nat.leb_le in H. apply Nat.leb_le. lia.
Qed.

Lemma grow_complete mt cap : forall more rest taken fuel,
  rest <> [] -> mt rest <> None -> cap_ok cap (taken + length more) = true ->
  length more < fuel -> grow mt cap fuel taken (more ++ rest) <> None.
Proof.
  induction more as [|a more IH]; intros rest taken fuel Hr Hm Hc Hf.
  - destruct fuel; [lia|]. cbn [grow app]. rewrite Nat.add_0_r in Hc. rewrite Hc.
    destruct (mt rest); [discriminate | congruence].
  - destruct fuel; [cbn in Hf; lia|]. cbn [grow].
    rewrite (cap_ok_mono cap taken (taken + length (a :: more))) by (auto; lia).
    destruct (mt ((a :: more) ++ rest)); [discriminate|].
    cbn [app tl]. destruct (more ++ rest) as [|b r] eqn:E.
    + destruct more; [cbn in E; congruence | discriminate].
    + rewrite <- E. apply IH; auto; cbn in *; [rewrite <- Hc; f_equal; lia | lia].
Qed.

Theorem mtree_complete t : wf t -> forall ks id segs,
  In (ks, id) (paths t) -> adm ks segs -> hdr_ok id = true -> mtree t segs <> None.
Proof.
  induction t as [subs leaves IH] using tree_ind2. intros W ks id segs HIn Ad Hd.
  destruct W as (Ws & Wl & Wr). rewrite paths_node in HIn.
  assert (Hne := adm_nonempty _ _ Ad).
  destruct segs as [|s rest]; [congruence|]. cbn [mtree].
  destruct rest as [|s2 rest].
  - (* single segment: must be a leaf path *)
    assert (exists l, In l leaves /\ lid l = id /\ ks = [lk l]) as (l & HInl & <- & ->).
    { apply in_app_or in HIn as [HIn|HIn].
      - apply in_map_iff in HIn as (l & E & HInl). inversion E; subst. exists l. auto.
      - exfalso. destruct (sub_paths_inv _ _ _ HIn) as (k & ks' & st & -> & _ & HIn').
        apply paths_nonempty in HIn'.
        inversion Ad; subst; try congruence.
        + match goal with H : adm ks' [] |- _ => apply adm_nonempty in H; congruence end.
        + match goal with H : _ ++ _ = [s] |- _ => 
            destruct taken as [|? [|? ?]]; cbn in H; try congruence; inversion H; subst end.
          match goal with H : adm ks' [] |- _ => apply adm_nonempty in H; congruence end. }
    apply (first_leaf_complete _ _ l HInl). unfold leaf_match1.
    inversion Ad; subst; try congruence.
    try match goal with H : _ = lk l |- _ => rewrite <- H end.
    match goal with H : seg_adm _ s = true |- _ => rewrite H end. rewrite Hd. reflexivity.
  - set (rest' := s2 :: rest) in *.
    (* general fact: the loop cannot fail if the fallback succeeds or some entry succeeds *)
    set (go := fix go (l : list (nk * tree)) : option leafid :=
                  match l with
                  | [] => all_leaf_fallback leaves (length (s :: rest'))
                  | (KOrd k, st) :: l' =>
                      if seg_adm k s then match mtree st rest' with Some x => Some x | None => go l' end else go l'
                  | (KAll cap, st) :: _ =>
                      match grow (mtree st) cap (length rest') 1 rest' with
                      | Some x => Some x
                      | None => all_leaf_fallback leaves (length (s :: rest'))
                      end
                  end).
    apply in_app_or in HIn as [HIn|HIn].
    + (* a leaf path admitting >= 2 segments: trailing match-all leaf *)
      apply in_map_iff in HIn as (l & E & HInl). inversion E; subst.
      inversion Ad; subst.
      2:{ exfalso. match goal with H : _ <> [] |- _ => apply H; reflexivity end. }
      2:{ exfalso. match goal with H : [] <> [] |- _ => apply H; reflexivity end. }
      assert (FB : all_leaf_fallback leaves (length (s :: rest')) <> None).
      { unfold all_leaf_fallback. rewrite (last_in_all leaves l HInl); auto.
        - match goal with H : KAll _ = lk l |- _ => rewrite <- H end.
          match goal with H : cap_ok _ _ = true |- _ => cbn [length] in *; rewrite H end.
          rewrite Hd. discriminate.
        - unfold leaf_isall. match goal with H : KAll _ = lk l |- _ => rewrite <- H end. reflexivity. }
      clear - FB. induction subs as [|[[k|cap] st] subs IHs]; cbn [go]; [exact FB | |].
      * destruct (seg_adm k s); [destruct (mtree st rest'); [discriminate|] |]; exact IHs.
      * destruct (grow _ _ _ _ _); [discriminate | exact FB].
    + destruct (sub_paths_inv _ _ _ HIn) as (k & ks' & st & -> & HInS & HInP).
      assert (Hks' := paths_nonempty _ _ _ HInP).
      (* walk the list of sub-trees up to (k, st) *)
      clear HIn. revert HInS. induction subs as [|[k0 st0] subs IHs]; [contradiction|].
      intros HInS. inversion IH as [|? ? IH0 IHrest]; subst. cbn [snd] in IH0.
      destruct Wr as (W0 & Wr').
      destruct HInS as [E|HInS].
      * inversion E; subst k0 st0. clear IHs. cbn [go].
        inversion Ad; subst; try (exfalso; apply Hks'; reflexivity).
        -- match goal with H : seg_adm _ s = true |- _ => rewrite H end.
           destruct (mtree st rest') eqn:M; [discriminate|]. exfalso.
           eapply (IH0 W0); eauto.
        -- (* match-all sub-tree *)
           match goal with H : taken ++ _ = s :: rest' |- _ => rename H into Es end.
           destruct taken as [|t0 more]; [congruence|]. cbn in Es. inversion Es; subst t0.
           match goal with H : more ++ ?r = rest' |- _ => rename r into rem; rename H into Er end.
           match goal with |- match ?X with _ => _ end <> None => destruct X eqn:G; [discriminate|] end.
           exfalso. revert G. apply grow_complete.
           ++ match goal with H : adm ks' rem |- _ => apply adm_nonempty in H; exact H end.
           ++ eapply (IH0 W0); eauto.
           ++ match goal with H : cap_ok cap _ = true |- _ => cbn [length] in H; exact H end.
           ++ rewrite app_length.
              match goal with H : adm ks' rem |- _ => apply adm_nonempty in H end.
              destruct rem; [congruence | cbn; lia].
      * cbn [go]. destruct k0 as [k0|cap0].
        -- destruct (seg_adm k0 s); [destruct (mtree st0 rest'); [discriminate|] |];
             (apply IHs; [exact IHrest | eapply all_is_last_tl; exact Ws | exact Wr' | exact HInS]).
        -- exfalso. assert (X := all_is_last_hd _ _ _ Ws eq_refl). subst subs. contradiction.
Qed.
End T.
Print Assumptions mtree_complete.
