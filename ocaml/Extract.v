(* Extraction of the executable model and spec functions to OCaml.
   Only ExtrOcamlBasic is used: bool, option, unit, prod, list, sumbool, sumor are mapped to
   the OCaml types; nat, N, Z, positive stay the extracted inductive datatypes. *)
Require Import ExtrOcamlBasic.
Require Import Base RW Return Chain.
Extraction Language OCaml.
Separate Extraction RW.run RW.spec_ok RW.valid_op
  Return.render Return.table Return.apply_wops Return.supported
  Chain.serve Chain.chain_spec_ok.
