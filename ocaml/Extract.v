(* Extraction of the executable model and spec functions to OCaml.
   Only ExtrOcamlBasic is used: bool, option, unit, prod, list, sumbool, sumor are mapped to
   the OCaml types; nat, N, Z, positive stay the extracted inductive datatypes. *)
Require Import ExtrOcamlBasic.
Require Import Base RW RWStack Return Chain Regex Route Tree Router RouteSpec UrlPath Groups Lexer Parser Grammar Inject Escape Query Static Render.
Extraction Language OCaml.
Separate Extraction RW.run RW.spec_ok RW.valid_op RWStack.stack_run RWStack.lower_ops RWStack.view
  Return.render Return.table Return.apply_wops Return.supported
  Chain.serve Chain.chain_spec_ok
  Regex.full Regex.search Regex.plus Regex.opt Regex.lit_re Route.render_route Tree.add_route Tree.mtree Tree.join_slash Tree.cap_ok
  Router.rinit Router.register Router.set_headers Router.serve Router.serve_tree Router.segs_of Router.decode1 Router.hdr_ok Router.table_lookup Router.deliver
  UrlPath.router_url_path UrlPath.fill UrlPath.route_skel' UrlPath.skel_ok UrlPath.pairs_to_map UrlPath.lookup_val UrlPath.brace_free
  Groups.exec Groups.flatten Groups.checked Groups.run_trace
  Parser.parse Grammar.bnf_parse
  Inject.value Inject.resolve Inject.apply_fields Inject.register Inject.register_invalid
  Escape.query Escape.query_trim Escape.query_unescape_acc Escape.query_bool Escape.query_int Escape.parse_int Escape.cookie_roundtrip Query.query_get Query.parse_query Query.query_strings
  Static.static_decide Static.normalize_prefix Static.has_prefix Router.split_slash
  Render.run_hops Render.render_ops Render.fresh Render.get_hdr Render.charset_of Render.s_ct
  RouteSpec.valid RouteSpec.spec_winner RouteSpec.all_flats RouteSpec.derivs.
