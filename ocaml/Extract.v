(* Extraction of the executable model and spec functions to OCaml.
   Only ExtrOcamlBasic is used: bool, option, unit, prod, list, sumbool, sumor are mapped to
   the OCaml types; nat, N, Z, positive stay the extracted inductive datatypes. *)
Require Import ExtrOcamlBasic.
Require Import Base RW.
Extraction Language OCaml.
Extraction "model.ml" RW.run RW.spec_ok RW.valid_op.
