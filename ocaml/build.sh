#!/bin/sh
# Extract the model from the compiled Coq theories (one OCaml module per Coq module, in ext/) and build the driver.
set -e
cd "$(dirname "$0")"
rm -rf ext && mkdir -p ext
(cd ext && coqc -R ../../coq Flamego ../Extract.v >/dev/null)
rm -f Extract.vo Extract.vok Extract.vos Extract.glob .Extract.aux
GLUE="sx.ml conv.ml $(ls g_*.ml) driver.ml"
SRC=$(ocamlfind ocamldep -sort -I ext ext/*.ml ext/*.mli $GLUE)
ocamlfind ocamlopt -O3 -w -a -I ext $SRC -o driver 2>/dev/null || ocamlfind ocamlopt -w -a -I ext $SRC -o driver
rm -f *.cmi *.cmx *.o ext/*.cmi ext/*.cmx ext/*.o
