#!/bin/sh
# Extract the model from the compiled Coq theories and build the driver.
set -e
cd "$(dirname "$0")"
coqc -R ../coq Flamego Extract.v >/dev/null
ocamlfind ocamlopt -O2 -w -a -package str model.mli model.ml sx.ml conv.ml c13.ml driver.ml -o driver 2>&1 || \
ocamlfind ocamlopt -w -a model.mli model.ml sx.ml conv.ml c13.ml driver.ml -o driver
