module List = Stdlib.List
(* Conversions between OCaml values and the extracted Coq datatypes. *)
open BinNums
open Datatypes

let rec pos_of_int (i : int) : positive =
  if i = 1 then Coq_xH else if i land 1 = 0 then Coq_xO (pos_of_int (i lsr 1)) else Coq_xI (pos_of_int (i lsr 1))
let n_of_int i : coq_N = if i = 0 then N0 else if i < 0 then failwith "n_of_int" else Npos (pos_of_int i)
let z_of_int i : coq_Z = if i = 0 then Z0 else if i > 0 then Zpos (pos_of_int i) else Zneg (pos_of_int (- i))
let rec nat_of_int i : nat = if i <= 0 then O else S (nat_of_int (i - 1))
let rec int_of_pos = function Coq_xH -> 1 | Coq_xO p -> 2 * int_of_pos p | Coq_xI p -> 2 * int_of_pos p + 1
let int_of_n = function N0 -> 0 | Npos p -> int_of_pos p
let int_of_z = function Z0 -> 0 | Zpos p -> int_of_pos p | Zneg p -> - (int_of_pos p)
let rec int_of_nat = function O -> 0 | S n -> 1 + int_of_nat n

(* byte strings travel as "x" ^ hex *)
let str_of_hex (h : string) : coq_N list =
  if String.length h = 0 || h.[0] <> 'x' then failwith ("hex atom expected: " ^ h);
  let l = (String.length h - 1) / 2 in
  List.init l (fun i -> n_of_int (int_of_string ("0x" ^ String.sub h (1 + 2 * i) 2)))
let hex_of_str (s : coq_N list) : string =
  let b = Buffer.create 16 in
  Buffer.add_char b 'x';
  List.iter (fun c -> Buffer.add_string b (Printf.sprintf "%02x" (int_of_n c))) s;
  Buffer.contents b
let ocaml_string_of_str (s : coq_N list) : string =
  String.init (List.length s) (fun i -> Char.chr (int_of_n (List.nth s i)))

let str x = str_of_hex (Sx.atom x)
let sx_str s = Sx.A (hex_of_str s)
let sx_int i = Sx.A (string_of_int i)
let sx_bool b = Sx.A (if b then "1" else "0")
let bool_of x = (Sx.int_of x) <> 0

(* Z values up to the int64 range (OCaml's int is only 63 bits wide) *)
let rec int64_of_pos = function
  | Coq_xH -> 1L
  | Coq_xO p -> Int64.mul 2L (int64_of_pos p)
  | Coq_xI p -> Int64.add (Int64.mul 2L (int64_of_pos p)) 1L
let int64_of_z = function Z0 -> 0L | Zpos p -> int64_of_pos p | Zneg p -> Int64.neg (int64_of_pos p)
let sx_z z = Sx.A (Int64.to_string (int64_of_z z))
