module List = Stdlib.List
(* Correspondence driver: reads cases "(case <id> (in ...) (obs ...))", one per line, evaluates the
   extracted Coq model and the executable spec, and prints one verdict line per case. *)
let evaluators : (string * (Sx.t -> Sx.t -> Sx.t list * bool * bool * string)) list = [
  "C13", G_c13.eval;
  "C03", G_chain.eval_c03;
  "C14", G_chain.eval_c14;
  "C15", G_chain.eval_c15;
  "C01", G_router.eval "C01"; "C02", G_router.eval "C02"; "C07", G_router.eval "C07";
  "C08", G_router.eval "C08"; "C12", G_router.eval "C12"; "C11", G_groups.eval; "C06", G_parser.eval; "C04", G_inject.eval; "C18", G_accessors.eval; "C16", G_static.eval; "C17", G_render.eval; "C05", G_conc.eval; "C09", G_router.eval "C09"; "C10", G_router.eval "C10";
]

let () =
  let prop = Sys.argv.(1) in
  let eval = try List.assoc prop evaluators with Not_found -> (prerr_endline ("no evaluator for " ^ prop); exit 2) in
  let ic = if Array.length Sys.argv > 2 then open_in Sys.argv.(2) else stdin in
  let total = ref 0 and diffs = ref 0 and viols = ref 0 and nontriv = ref 0 and invalid = ref 0 in
  let seen = Hashtbl.create 1024 in
  let classes = Hashtbl.create 16 in
  (try
    while true do
      let line = input_line ic in
      if String.length line > 0 && line.[0] = '(' then begin
        let c = Sx.parse line in
        let id = Sx.atom (List.nth (Sx.list c) 1) in
        let input = Sx.field "in" c and obs = Sx.field "obs" c in
        incr total;
        if Sx.field_opt "invalid" obs <> None then begin
          incr invalid; Printf.printf "%s invalid\n" id
        end else begin
          match (try Some (eval input obs) with e -> (prerr_endline ("evaluator exception on case " ^ id ^ ": " ^ Printexc.to_string e); None)) with
          | None ->
              (* the harness understood the input and the implementation answered, but with something outside what
                 the evaluator of this property can read: model and implementation disagree on this case (the
                 executable spec has not judged it) *)
              incr diffs;
              Printf.printf "%s corr=diff spec=ok model=(unreadable-observation) impl=%s\n" id (Sx.show (Sx.L (Sx.args obs)))
          | Some (m, spec, nt, cls) ->
            let o' = Sx.args obs in
            let corr = (m = o') in
            if not corr then incr diffs;
            if not spec then incr viols;
            let key = Sx.show input in
            if nt && not (Hashtbl.mem seen key) then (Hashtbl.add seen key (); incr nontriv);
            Hashtbl.replace classes cls (1 + (try Hashtbl.find classes cls with Not_found -> 0));
            Printf.printf "%s corr=%s spec=%s%s\n" id (if corr then "ok" else "diff") (if spec then "ok" else "viol")
              (if corr && spec then "" else " model=" ^ Sx.show (Sx.L m) ^ " impl=" ^ Sx.show (Sx.L o'))
        end
      end
    done
  with End_of_file -> ());
  let cl = Hashtbl.fold (fun k v acc -> Printf.sprintf "%s%s\"%s\":%d" acc (if acc = "" then "" else ",") k v) classes "" in
  Printf.printf "SUMMARY total=%d diffs=%d viols=%d nontrivial=%d invalid=%d classes={%s}\n" !total !diffs !viols !nontriv !invalid cl
