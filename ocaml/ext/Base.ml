open BinNat
open BinNums
open Datatypes

type str = coq_N list

(** val str_eqb : str -> str -> bool **)

let rec str_eqb a b =
  match a with
  | [] -> (match b with
           | [] -> true
           | _ :: _ -> false)
  | x :: a' ->
    (match b with
     | [] -> false
     | y :: b' -> (&&) (N.eqb x y) (str_eqb a' b'))

(** val slen : str -> coq_N **)

let slen s =
  N.of_nat (length s)

(** val list_eqb : ('a1 -> 'a1 -> bool) -> 'a1 list -> 'a1 list -> bool **)

let rec list_eqb eqb0 a b =
  match a with
  | [] -> (match b with
           | [] -> true
           | _ :: _ -> false)
  | x :: a' ->
    (match b with
     | [] -> false
     | y :: b' -> (&&) (eqb0 x y) (list_eqb eqb0 a' b'))
