open BinNat
open BinNums
open Datatypes

type str = coq_N list

val str_eqb : str -> str -> bool

val slen : str -> coq_N

val list_eqb : ('a1 -> 'a1 -> bool) -> 'a1 list -> 'a1 list -> bool
