open BinNums
open BinPos

module Z =
 struct
  (** val eqb : coq_Z -> coq_Z -> bool **)

  let eqb x y =
    match x with
    | Z0 -> (match y with
             | Z0 -> true
             | _ -> false)
    | Zpos p -> (match y with
                 | Zpos q -> Pos.eqb p q
                 | _ -> false)
    | Zneg p -> (match y with
                 | Zneg q -> Pos.eqb p q
                 | _ -> false)
 end
