open BinNums
open BinPos
open Datatypes

module Z =
 struct
  (** val double : coq_Z -> coq_Z **)

  let double = function
  | Z0 -> Z0
  | Zpos p -> Zpos (Coq_xO p)
  | Zneg p -> Zneg (Coq_xO p)

  (** val succ_double : coq_Z -> coq_Z **)

  let succ_double = function
  | Z0 -> Zpos Coq_xH
  | Zpos p -> Zpos (Coq_xI p)
  | Zneg p -> Zneg (Pos.pred_double p)

  (** val pred_double : coq_Z -> coq_Z **)

  let pred_double = function
  | Z0 -> Zneg Coq_xH
  | Zpos p -> Zpos (Pos.pred_double p)
  | Zneg p -> Zneg (Coq_xI p)

  (** val pos_sub : positive -> positive -> coq_Z **)

  let rec pos_sub x y =
    match x with
    | Coq_xI p ->
      (match y with
       | Coq_xI q -> double (pos_sub p q)
       | Coq_xO q -> succ_double (pos_sub p q)
       | Coq_xH -> Zpos (Coq_xO p))
    | Coq_xO p ->
      (match y with
       | Coq_xI q -> pred_double (pos_sub p q)
       | Coq_xO q -> double (pos_sub p q)
       | Coq_xH -> Zpos (Pos.pred_double p))
    | Coq_xH ->
      (match y with
       | Coq_xI q -> Zneg (Coq_xO q)
       | Coq_xO q -> Zneg (Pos.pred_double q)
       | Coq_xH -> Z0)

  (** val add : coq_Z -> coq_Z -> coq_Z **)

  let add x y =
    match x with
    | Z0 -> y
    | Zpos x' ->
      (match y with
       | Z0 -> x
       | Zpos y' -> Zpos (Pos.add x' y')
       | Zneg y' -> pos_sub x' y')
    | Zneg x' ->
      (match y with
       | Z0 -> x
       | Zpos y' -> pos_sub y' x'
       | Zneg y' -> Zneg (Pos.add x' y'))

  (** val opp : coq_Z -> coq_Z **)

  let opp = function
  | Z0 -> Z0
  | Zpos x0 -> Zneg x0
  | Zneg x0 -> Zpos x0

  (** val mul : coq_Z -> coq_Z -> coq_Z **)

  let mul x y =
    match x with
    | Z0 -> Z0
    | Zpos x' ->
      (match y with
       | Z0 -> Z0
       | Zpos y' -> Zpos (Pos.mul x' y')
       | Zneg y' -> Zneg (Pos.mul x' y'))
    | Zneg x' ->
      (match y with
       | Z0 -> Z0
       | Zpos y' -> Zneg (Pos.mul x' y')
       | Zneg y' -> Zpos (Pos.mul x' y'))

  (** val compare : coq_Z -> coq_Z -> comparison **)

  let compare x y =
    match x with
    | Z0 -> (match y with
             | Z0 -> Eq
             | Zpos _ -> Lt
             | Zneg _ -> Gt)
    | Zpos x' -> (match y with
                  | Zpos y' -> Pos.compare x' y'
                  | _ -> Gt)
    | Zneg x' ->
      (match y with
       | Zneg y' -> coq_CompOpp (Pos.compare x' y')
       | _ -> Lt)

  (** val leb : coq_Z -> coq_Z -> bool **)

  let leb x y =
    match compare x y with
    | Gt -> false
    | _ -> true

  (** val eqb : coq_Z -> coq_Z -> bool **)

  let eqb x y =
    match x with
    | Z0 -> (match y with
             | Z0 -> true
             | _ -> false)
    | Zpos p -> (match y with
                 | Zpos q -> Pos.eqb p q
                 | _ -> false)
    | Zneg p -> (match y with
                 | Zneg q -> Pos.eqb p q
                 | _ -> false)

  (** val of_nat : nat -> coq_Z **)

  let of_nat = function
  | O -> Z0
  | S n0 -> Zpos (Pos.of_succ_nat n0)

  (** val of_N : coq_N -> coq_Z **)

  let of_N = function
  | N0 -> Z0
  | Npos p -> Zpos p
 end
