open BinNums
open BinPos

module Z :
 sig
  val eqb : coq_Z -> coq_Z -> bool
 end
