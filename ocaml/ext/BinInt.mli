open BinNums
open BinPos
open Datatypes

module Z :
 sig
  val double : coq_Z -> coq_Z

  val succ_double : coq_Z -> coq_Z

  val pred_double : coq_Z -> coq_Z

  val pos_sub : positive -> positive -> coq_Z

  val add : coq_Z -> coq_Z -> coq_Z

  val opp : coq_Z -> coq_Z

  val mul : coq_Z -> coq_Z -> coq_Z

  val compare : coq_Z -> coq_Z -> comparison

  val leb : coq_Z -> coq_Z -> bool

  val eqb : coq_Z -> coq_Z -> bool

  val of_nat : nat -> coq_Z

  val of_N : coq_N -> coq_Z
 end
