open BinNums
open BinPos
open Datatypes

module N =
 struct
  (** val add : coq_N -> coq_N -> coq_N **)

  let add n m =
    match n with
    | N0 -> m
    | Npos p -> (match m with
                 | N0 -> n
                 | Npos q -> Npos (Pos.add p q))

  (** val compare : coq_N -> coq_N -> comparison **)

  let compare n m =
    match n with
    | N0 -> (match m with
             | N0 -> Eq
             | Npos _ -> Lt)
    | Npos n' -> (match m with
                  | N0 -> Gt
                  | Npos m' -> Pos.compare n' m')

  (** val eqb : coq_N -> coq_N -> bool **)

  let eqb n m =
    match n with
    | N0 -> (match m with
             | N0 -> true
             | Npos _ -> false)
    | Npos p -> (match m with
                 | N0 -> false
                 | Npos q -> Pos.eqb p q)

  (** val min : coq_N -> coq_N -> coq_N **)

  let min n n' =
    match compare n n' with
    | Gt -> n'
    | _ -> n

  (** val of_nat : nat -> coq_N **)

  let of_nat = function
  | O -> N0
  | S n' -> Npos (Pos.of_succ_nat n')
 end
