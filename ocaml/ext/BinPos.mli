open BinNums
open Datatypes

module Pos :
 sig
  val succ : positive -> positive

  val add : positive -> positive -> positive

  val add_carry : positive -> positive -> positive

  val compare_cont : comparison -> positive -> positive -> comparison

  val compare : positive -> positive -> comparison

  val eqb : positive -> positive -> bool

  val of_succ_nat : nat -> positive
 end
