open Base
open BinInt
open BinNums
open Datatypes
open List
open Nat
open Return

type act =
| AWriteHeader of coq_Z
| AWrite of str
| ANext
| ACancel
| APanic of nat

type handler =
| HNormal of act list * rv list
| HRecovery
| HUnres

type chunk =
| CBytes of str
| CPanicPage of nat * bool

type event =
| Enter of nat * coq_Z * bool
| Exit of nat
| Unwind of nat
| NextCall of nat
| NextRet of nat

type st = { idx : nat; status : coq_Z; body : chunk list; cancelled : 
            bool; trace : event list }

type outcome =
| Done of st
| Panicked of nat * st
| OutOfFuel

(** val set_idx : st -> nat -> st **)

let set_idx s i =
  { idx = i; status = s.status; body = s.body; cancelled = s.cancelled;
    trace = s.trace }

(** val log : st -> event -> st **)

let log s e =
  { idx = s.idx; status = s.status; body = s.body; cancelled = s.cancelled;
    trace = (app s.trace (e :: [])) }

(** val set_cancelled : st -> st **)

let set_cancelled s =
  { idx = s.idx; status = s.status; body = s.body; cancelled = true; trace =
    s.trace }

(** val w_header : coq_Z -> st -> st **)

let w_header c s =
  if Z.eqb s.status Z0
  then { idx = s.idx; status = c; body = s.body; cancelled = s.cancelled;
         trace = s.trace }
  else s

(** val w_body : bool -> chunk -> st -> st **)

let w_body head ch s =
  let s1 =
    w_header (Zpos (Coq_xO (Coq_xO (Coq_xO (Coq_xI (Coq_xO (Coq_xO (Coq_xI
      Coq_xH)))))))) s
  in
  if head
  then s1
  else { idx = s1.idx; status = s1.status; body = (app s1.body (ch :: []));
         cancelled = s1.cancelled; trace = s1.trace }

(** val w_ops : bool -> wop list -> st -> st **)

let w_ops head ops s =
  fold_left (fun s0 o ->
    match o with
    | WHeader c -> w_header c s0
    | WBody b -> w_body head (CBytes b) s0) ops s

(** val written : st -> bool **)

let written s =
  negb (Z.eqb s.status Z0)

(** val di_panic : nat **)

let di_panic =
  O

(** val n : handler list -> nat **)

let n =
  length

(** val handler_at :
    handler list -> handler option -> nat -> handler option **)

let handler_at hs action i =
  if PeanoNat.Nat.ltb i (n hs)
  then nth_error hs i
  else if PeanoNat.Nat.eqb i (n hs) then action else None

(** val next : (st -> outcome) -> st -> outcome **)

let next runf s =
  match runf (set_idx s (S s.idx)) with
  | Done s1 -> Done (set_idx s1 (pred s1.idx))
  | x -> x

(** val exec : bool -> (st -> outcome) -> nat -> act list -> st -> outcome **)

let rec exec head runf i l s =
  match l with
  | [] -> Done s
  | a :: l' ->
    (match a with
     | AWriteHeader c -> exec head runf i l' (w_header c s)
     | AWrite bs -> exec head runf i l' (w_body head (CBytes bs) s)
     | ANext ->
       (match next runf (log s (NextCall i)) with
        | Done s1 -> exec head runf i l' (log s1 (NextRet i))
        | x -> x)
     | ACancel -> exec head runf i l' (set_cancelled s)
     | APanic v -> Panicked (v, s))

(** val invoke :
    bool -> bool -> (st -> outcome) -> nat -> handler -> st -> outcome **)

let invoke head dev runf i h s =
  match h with
  | HNormal (acts, _) ->
    (match exec head runf i acts (log s (Enter (i, s.status, s.cancelled))) with
     | Done s1 -> Done (log s1 (Exit i))
     | Panicked (v, s1) -> Panicked (v, (log s1 (Unwind i)))
     | OutOfFuel -> OutOfFuel)
  | HRecovery ->
    (match next runf s with
     | Panicked (v, s1) ->
       Done
         (w_body head (CPanicPage (v, dev))
           (w_header (Zpos (Coq_xO (Coq_xO (Coq_xI (Coq_xO (Coq_xI (Coq_xI
             (Coq_xI (Coq_xI Coq_xH))))))))) s1))
     | x -> x)
  | HUnres -> Panicked (di_panic, s)

(** val ret_of : handler -> rv list **)

let ret_of = function
| HNormal (_, r) -> r
| _ -> []

(** val run :
    handler list -> handler option -> bool -> bool -> nat -> st -> outcome **)

let rec run hs action head dev fuel s =
  match fuel with
  | O -> OutOfFuel
  | S f ->
    if PeanoNat.Nat.ltb (n hs) s.idx
    then Done s
    else if s.cancelled
         then Done s
         else (match handler_at hs action s.idx with
               | Some h ->
                 (match invoke head dev (run hs action head dev f) s.idx h s with
                  | Done s1 ->
                    let s2 = set_idx s1 (S s1.idx) in
                    let s3 = w_ops head (render (ret_of h)) s2 in
                    if written s3
                    then Done s3
                    else run hs action head dev f s3
                  | x -> x)
               | None -> Done (set_idx s (S s.idx)))

(** val init : st **)

let init =
  { idx = O; status = Z0; body = []; cancelled = false; trace = [] }

(** val serve : handler list -> handler option -> bool -> bool -> outcome **)

let serve hs action head dev =
  run hs action head dev (S (S (n hs))) init

(** val scripted : handler list -> handler option -> nat -> bool **)

let scripted hs action i =
  match handler_at hs action i with
  | Some h -> (match h with
               | HNormal (_, _) -> true
               | _ -> false)
  | None -> false

type jst = { jnext : nat; jstk : nat list; jprev : event option }

(** val j0 : jst **)

let j0 =
  { jnext = O; jstk = []; jprev = None }

(** val none_scripted :
    handler list -> handler option -> nat -> nat -> bool **)

let none_scripted hs action a len =
  forallb (fun k -> negb (scripted hs action k)) (seq a len)

(** val top_lt : nat list -> nat -> bool **)

let top_lt stk i =
  match stk with
  | [] -> true
  | p :: _ -> PeanoNat.Nat.ltb p i

(** val top_is : nat list -> nat -> bool **)

let top_is stk i =
  match stk with
  | [] -> false
  | p :: _ -> PeanoNat.Nat.eqb p i

(** val may_start : event option -> coq_Z -> bool -> bool **)

let may_start prev st0 c =
  match prev with
  | Some e ->
    (match e with
     | Enter (_, _, _) -> false
     | NextCall _ -> negb c
     | NextRet _ -> false
     | _ -> (&&) (Z.eqb st0 Z0) (negb c))
  | None -> negb c

(** val jstep :
    handler list -> handler option -> jst -> event -> jst option **)

let jstep hs action j e = match e with
| Enter (i, st0, c) ->
  if (&&)
       ((&&)
         ((&&)
           ((&&) (PeanoNat.Nat.leb j.jnext i)
             (none_scripted hs action j.jnext (sub i j.jnext)))
           (scripted hs action i)) (top_lt j.jstk i))
       (may_start j.jprev st0 c)
  then Some { jnext = (S i); jstk = (i :: j.jstk); jprev = (Some e) }
  else None
| Exit i ->
  if top_is j.jstk i
  then Some { jnext = j.jnext; jstk = (tl j.jstk); jprev = (Some e) }
  else None
| Unwind i ->
  if top_is j.jstk i
  then Some { jnext = j.jnext; jstk = (tl j.jstk); jprev = (Some e) }
  else None
| NextCall i ->
  if top_is j.jstk i
  then Some { jnext = j.jnext; jstk = j.jstk; jprev = (Some e) }
  else None
| NextRet i ->
  if top_is j.jstk i
  then Some { jnext = j.jnext; jstk = j.jstk; jprev = (Some e) }
  else None

(** val jrun :
    handler list -> handler option -> jst -> event list -> jst option **)

let rec jrun hs action j = function
| [] -> Some j
| e :: t ->
  (match jstep hs action j e with
   | Some j' -> jrun hs action j' t
   | None -> None)

(** val chain_spec_ok :
    handler list -> handler option -> event list -> bool **)

let chain_spec_ok hs action tr =
  match jrun hs action j0 tr with
  | Some j -> (match j.jstk with
               | [] -> true
               | _ :: _ -> false)
  | None -> false
