open Base
open BinInt
open BinNums
open Datatypes
open List
open Nat
open Return

type act =
| AWriteHeader of coq_Z
| AWrite of str
| ANext
| ACancel
| APanic of nat

type handler =
| HNormal of act list * rv list
| HRecovery
| HUnres

type chunk =
| CBytes of str
| CPanicPage of nat * bool

type event =
| Enter of nat * coq_Z * bool
| Exit of nat
| Unwind of nat
| NextCall of nat
| NextRet of nat

type st = { idx : nat; status : coq_Z; body : chunk list; cancelled : 
            bool; trace : event list }

type outcome =
| Done of st
| Panicked of nat * st
| OutOfFuel

val set_idx : st -> nat -> st

val log : st -> event -> st

val set_cancelled : st -> st

val w_header : coq_Z -> st -> st

val w_body : bool -> chunk -> st -> st

val w_ops : bool -> wop list -> st -> st

val written : st -> bool

val di_panic : nat

val n : handler list -> nat

val handler_at : handler list -> handler option -> nat -> handler option

val next : (st -> outcome) -> st -> outcome

val exec : bool -> (st -> outcome) -> nat -> act list -> st -> outcome

val invoke :
  bool -> bool -> (st -> outcome) -> nat -> handler -> st -> outcome

val ret_of : handler -> rv list

val run :
  handler list -> handler option -> bool -> bool -> nat -> st -> outcome

val init : st

val serve : handler list -> handler option -> bool -> bool -> outcome

val scripted : handler list -> handler option -> nat -> bool

type jst = { jnext : nat; jstk : nat list; jprev : event option }

val j0 : jst

val none_scripted : handler list -> handler option -> nat -> nat -> bool

val top_lt : nat list -> nat -> bool

val top_is : nat list -> nat -> bool

val may_start : event option -> coq_Z -> bool -> bool

val jstep : handler list -> handler option -> jst -> event -> jst option

val jrun : handler list -> handler option -> jst -> event list -> jst option

val chain_spec_ok : handler list -> handler option -> event list -> bool
