
val negb : bool -> bool

type nat =
| O
| S of nat

val length : 'a1 list -> nat

val app : 'a1 list -> 'a1 list -> 'a1 list

type comparison =
| Eq
| Lt
| Gt
