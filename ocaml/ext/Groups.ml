open Base
open BinNat
open BinNums
open Datatypes
open List
open PeanoNat

type stmt =
| SRoute of str * str * nat list
| SGet of str * nat list
| SRoutes of str * str * str list * nat list
| SAny of str * nat list
| SGroup of str * nat list * stmt list
| SCombo of str * nat list * (str * nat list) list
| SAutoHead of bool

type freg = { fr_method : str; fr_path : str; fr_hs : nat list }

(** val m_get : str **)

let m_get =
  (Npos (Coq_xI (Coq_xI (Coq_xI (Coq_xO (Coq_xO (Coq_xO
    Coq_xH))))))) :: ((Npos (Coq_xI (Coq_xO (Coq_xI (Coq_xO (Coq_xO (Coq_xO
    Coq_xH))))))) :: ((Npos (Coq_xO (Coq_xO (Coq_xI (Coq_xO (Coq_xI (Coq_xO
    Coq_xH))))))) :: []))

(** val m_head : str **)

let m_head =
  (Npos (Coq_xO (Coq_xO (Coq_xO (Coq_xI (Coq_xO (Coq_xO
    Coq_xH))))))) :: ((Npos (Coq_xI (Coq_xO (Coq_xI (Coq_xO (Coq_xO (Coq_xO
    Coq_xH))))))) :: ((Npos (Coq_xI (Coq_xO (Coq_xO (Coq_xO (Coq_xO (Coq_xO
    Coq_xH))))))) :: ((Npos (Coq_xO (Coq_xO (Coq_xI (Coq_xO (Coq_xO (Coq_xO
    Coq_xH))))))) :: [])))

(** val m_star : str **)

let m_star =
  (Npos (Coq_xO (Coq_xI (Coq_xO (Coq_xI (Coq_xO Coq_xH)))))) :: []

(** val is_space : coq_N -> bool **)

let is_space c =
  (||)
    ((||)
      ((||)
        ((||)
          ((||)
            (N.eqb c (Npos (Coq_xO (Coq_xO (Coq_xO (Coq_xO (Coq_xO
              Coq_xH)))))))
            (N.eqb c (Npos (Coq_xI (Coq_xO (Coq_xO Coq_xH))))))
          (N.eqb c (Npos (Coq_xO (Coq_xI (Coq_xO Coq_xH))))))
        (N.eqb c (Npos (Coq_xI (Coq_xO (Coq_xI Coq_xH))))))
      (N.eqb c (Npos (Coq_xI (Coq_xI (Coq_xO Coq_xH))))))
    (N.eqb c (Npos (Coq_xO (Coq_xO (Coq_xI Coq_xH)))))

(** val ltrim : str -> str **)

let rec ltrim s = match s with
| [] -> []
| c :: s' -> if is_space c then ltrim s' else s

(** val trim : str -> str **)

let trim s =
  rev (ltrim (rev (ltrim s)))

(** val split_comma : str -> str -> str list **)

let rec split_comma cur = function
| [] -> (rev cur) :: []
| c :: s' ->
  if N.eqb c (Npos (Coq_xO (Coq_xO (Coq_xI (Coq_xI (Coq_xO Coq_xH))))))
  then (rev cur) :: (split_comma [] s')
  else split_comma (c :: cur) s'

(** val methods_of : str -> str list -> str list **)

let methods_of methods extra =
  app (map trim (split_comma [] methods)) extra

type gst = { autohead : bool; groups : (str * nat list) list }

(** val route_in : gst -> str -> str -> nat list -> freg **)

let route_in g m path hs =
  { fr_method = m; fr_path = (app (concat (map fst g.groups)) path); fr_hs =
    (app (concat (map snd g.groups)) hs) }

(** val get_in : gst -> str -> nat list -> freg list **)

let get_in g path hs =
  (route_in g m_get path hs) :: (if g.autohead
                                 then (route_in g m_head path hs) :: []
                                 else [])

(** val combo_in :
    gst -> str -> nat list -> str list -> (str * nat list) list -> freg list
    option **)

let rec combo_in g path common added = function
| [] -> Some []
| p :: rest ->
  let (m, hs) = p in
  if existsb (str_eqb m) added
  then None
  else (match combo_in g path common (m :: added) rest with
        | Some l ->
          Some
            (app
              (if str_eqb m m_get
               then get_in g path (app common hs)
               else (route_in g m path (app common hs)) :: []) l)
        | None -> None)

(** val seq_list :
    ('a1 -> stmt -> ('a1 * freg list) option) -> 'a1 -> stmt list ->
    ('a1 * freg list) option **)

let rec seq_list f a = function
| [] -> Some (a, [])
| s :: l' ->
  (match f a s with
   | Some p ->
     let (a', r) = p in
     (match seq_list f a' l' with
      | Some p0 -> let (a'', r') = p0 in Some (a'', (app r r'))
      | None -> None)
   | None -> None)

(** val exec_stmt : nat -> gst -> stmt -> (gst * freg list) option **)

let rec exec_stmt fuel g s =
  match fuel with
  | O -> None
  | S f ->
    (match s with
     | SRoute (m, path, hs) -> Some (g, ((route_in g m path hs) :: []))
     | SGet (path, hs) -> Some (g, (get_in g path hs))
     | SRoutes (path, methods, extra, hs) ->
       (match methods with
        | [] -> None
        | _ :: _ ->
          Some (g,
            (map (fun m -> route_in g m path hs) (methods_of methods extra))))
     | SAny (path, hs) -> Some (g, ((route_in g m_star path hs) :: []))
     | SGroup (path, hs, body) ->
       let g1 = { autohead = g.autohead; groups =
         (app g.groups ((path, hs) :: [])) }
       in
       (match seq_list (exec_stmt f) g1 body with
        | Some p ->
          let (g2, r) = p in
          Some ({ autohead = g2.autohead; groups = (removelast g2.groups) },
          r)
        | None -> None)
     | SCombo (path, common, uses) ->
       (match combo_in g path common [] uses with
        | Some l -> Some (g, l)
        | None -> None)
     | SAutoHead b -> Some ({ autohead = b; groups = g.groups }, []))

(** val exec_list : nat -> gst -> stmt list -> (gst * freg list) option **)

let exec_list fuel g l =
  seq_list (exec_stmt fuel) g l

(** val depth : stmt -> nat **)

let rec depth = function
| SGroup (_, _, body) ->
  S (fold_right (fun s0 d -> Nat.max (depth s0) d) O body)
| _ -> S O

(** val depth_list : stmt list -> nat **)

let depth_list l =
  fold_right (fun s d -> Nat.max (depth s) d) O l

(** val exec : stmt list -> freg list option **)

let exec p =
  match exec_list (S (depth_list p)) { autohead = false; groups = [] } p with
  | Some p0 -> let (_, r) = p0 in Some r
  | None -> None

(** val reg_at : str -> nat list -> str -> str -> nat list -> freg **)

let reg_at pp ph m path hs =
  { fr_method = m; fr_path = (app pp path); fr_hs = (app ph hs) }

(** val get_at : bool -> str -> nat list -> str -> nat list -> freg list **)

let get_at ah pp ph path hs =
  (reg_at pp ph m_get path hs) :: (if ah
                                   then (reg_at pp ph m_head path hs) :: []
                                   else [])

(** val combo_at :
    bool -> str -> nat list -> str -> nat list -> str list -> (str * nat
    list) list -> freg list option **)

let rec combo_at ah pp ph path common added = function
| [] -> Some []
| p :: rest ->
  let (m, hs) = p in
  if existsb (str_eqb m) added
  then None
  else (match combo_at ah pp ph path common (m :: added) rest with
        | Some l ->
          Some
            (app
              (if str_eqb m m_get
               then get_at ah pp ph path (app common hs)
               else (reg_at pp ph m path (app common hs)) :: []) l)
        | None -> None)

(** val flatten_stmt :
    bool -> str -> nat list -> stmt -> (bool * freg list) option **)

let rec flatten_stmt ah pp ph = function
| SRoute (m, path, hs) -> Some (ah, ((reg_at pp ph m path hs) :: []))
| SGet (path, hs) -> Some (ah, (get_at ah pp ph path hs))
| SRoutes (path, methods, extra, hs) ->
  (match methods with
   | [] -> None
   | _ :: _ ->
     Some (ah,
       (map (fun m -> reg_at pp ph m path hs) (methods_of methods extra))))
| SAny (path, hs) -> Some (ah, ((reg_at pp ph m_star path hs) :: []))
| SGroup (path, hs, body) ->
  seq_list (fun ah0 s0 -> flatten_stmt ah0 (app pp path) (app ph hs) s0) ah
    body
| SCombo (path, common, uses) ->
  (match combo_at ah pp ph path common [] uses with
   | Some l -> Some (ah, l)
   | None -> None)
| SAutoHead b -> Some (b, [])

(** val flatten_list :
    bool -> str -> nat list -> stmt list -> (bool * freg list) option **)

let flatten_list ah pp ph l =
  seq_list (fun ah0 s -> flatten_stmt ah0 pp ph s) ah l

(** val flatten : stmt list -> freg list option **)

let flatten p =
  match flatten_list false [] [] p with
  | Some p0 -> let (_, r) = p0 in Some r
  | None -> None
