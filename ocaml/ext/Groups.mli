open Base
open BinNat
open BinNums
open Datatypes
open List
open PeanoNat

type stmt =
| SRoute of str * str * nat list
| SGet of str * nat list
| SRoutes of str * str * str list * nat list
| SAny of str * nat list
| SGroup of str * nat list * stmt list
| SCombo of str * nat list * (str * nat list) list
| SAutoHead of bool

type freg = { fr_method : str; fr_path : str; fr_hs : nat list }

val m_get : str

val m_head : str

val m_star : str

val is_space : coq_N -> bool

val ltrim : str -> str

val trim : str -> str

val split_comma : str -> str -> str list

val methods_of : str -> str list -> str list

type gst = { autohead : bool; groups : (str * nat list) list }

val route_in : gst -> str -> str -> nat list -> freg

val get_in : gst -> str -> nat list -> freg list

val combo_in :
  gst -> str -> nat list -> str list -> (str * nat list) list -> freg list
  option

val seq_list :
  ('a1 -> stmt -> ('a1 * freg list) option) -> 'a1 -> stmt list ->
  ('a1 * freg list) option

val exec_stmt : nat -> gst -> stmt -> (gst * freg list) option

val exec_list : nat -> gst -> stmt list -> (gst * freg list) option

val depth : stmt -> nat

val depth_list : stmt list -> nat

val exec : stmt list -> freg list option

val reg_at : str -> nat list -> str -> str -> nat list -> freg

val get_at : bool -> str -> nat list -> str -> nat list -> freg list

val combo_at :
  bool -> str -> nat list -> str -> nat list -> str list -> (str * nat list)
  list -> freg list option

val flatten_stmt :
  bool -> str -> nat list -> stmt -> (bool * freg list) option

val flatten_list :
  bool -> str -> nat list -> stmt list -> (bool * freg list) option

val flatten : stmt list -> freg list option
