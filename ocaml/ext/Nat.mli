open Datatypes

val pred : nat -> nat

val sub : nat -> nat -> nat
