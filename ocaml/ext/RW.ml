open Base
open BinInt
open BinNat
open BinNums
open Bool
open Datatypes
open List
open PeanoNat

type op =
| OWriteHeader of coq_Z
| OWrite of str * coq_N
| OFlush
| OBefore of nat
| OStatus
| OSize
| OWritten

type ev =
| UWriteHeader of coq_Z
| UWrite of str * coq_N
| UFlush
| EHook of nat * coq_Z
| AStatus of coq_Z
| ASize of coq_N
| AWritten of bool

type st = { status : coq_Z; size : coq_N; hooks : nat list; once : bool }

(** val init : st **)

let init =
  { status = Z0; size = N0; hooks = []; once = false }

(** val write_header : st -> coq_Z -> st * ev list **)

let write_header s c =
  if s.once
  then (s, [])
  else if negb (Z.eqb s.status Z0)
       then ({ status = s.status; size = s.size; hooks = s.hooks; once =
              true }, [])
       else ({ status = c; size = s.size; hooks = s.hooks; once = true },
              (app (map (fun id -> EHook (id, s.status)) (rev s.hooks))
                ((UWriteHeader c) :: [])))

(** val ensure_header : st -> st * ev list **)

let ensure_header s =
  if Z.eqb s.status Z0
  then write_header s (Zpos (Coq_xO (Coq_xO (Coq_xO (Coq_xI (Coq_xO (Coq_xO
         (Coq_xI Coq_xH))))))))
  else (s, [])

(** val step : bool -> st -> op -> st * ev list **)

let step head s = function
| OWriteHeader c -> write_header s c
| OWrite (bs, acc) ->
  let (s1, e1) = ensure_header s in
  if head
  then (s1, e1)
  else let n = N.min acc (slen bs) in
       ({ status = s1.status; size = (N.add s1.size n); hooks = s1.hooks;
       once = s1.once }, (app e1 ((UWrite (bs, n)) :: [])))
| OFlush -> let (s1, e1) = ensure_header s in (s1, (app e1 (UFlush :: [])))
| OBefore id ->
  ({ status = s.status; size = s.size; hooks = (app s.hooks (id :: []));
    once = s.once }, [])
| OStatus -> (s, ((AStatus s.status) :: []))
| OSize -> (s, ((ASize s.size) :: []))
| OWritten -> (s, ((AWritten (negb (Z.eqb s.status Z0))) :: []))

(** val run_from : bool -> st -> op list -> ev list list **)

let rec run_from head s = function
| [] -> []
| o :: ops' -> let (s', e) = step head s o in e :: (run_from head s' ops')

(** val run : bool -> op list -> ev list list **)

let run head ops =
  run_from head init ops

type judge = { sent : coq_Z option; fwd : coq_N; regs : nat list }

(** val jinit : judge **)

let jinit =
  { sent = None; fwd = N0; regs = [] }

(** val is_trigger : op -> bool **)

let is_trigger = function
| OWriteHeader _ -> true
| OWrite (_, _) -> true
| OFlush -> true
| _ -> false

(** val trigger_code : op -> coq_Z **)

let trigger_code = function
| OWriteHeader c -> c
| _ ->
  Zpos (Coq_xO (Coq_xO (Coq_xO (Coq_xI (Coq_xO (Coq_xO (Coq_xI Coq_xH)))))))

(** val ev_eqb : ev -> ev -> bool **)

let ev_eqb a b =
  match a with
  | UWriteHeader x -> (match b with
                       | UWriteHeader y -> Z.eqb x y
                       | _ -> false)
  | UWrite (x, n) ->
    (match b with
     | UWrite (y, m) -> (&&) (str_eqb x y) (N.eqb n m)
     | _ -> false)
  | UFlush -> (match b with
               | UFlush -> true
               | _ -> false)
  | EHook (i, x) ->
    (match b with
     | EHook (j, y) -> (&&) (Nat.eqb i j) (Z.eqb x y)
     | _ -> false)
  | AStatus x -> (match b with
                  | AStatus y -> Z.eqb x y
                  | _ -> false)
  | ASize x -> (match b with
                | ASize y -> N.eqb x y
                | _ -> false)
  | AWritten x -> (match b with
                   | AWritten y -> eqb x y
                   | _ -> false)

(** val expected : bool -> judge -> op -> ev list **)

let expected head j o =
  let first =
    match j.sent with
    | Some _ -> []
    | None ->
      if is_trigger o
      then app (map (fun id -> EHook (id, Z0)) (rev j.regs)) ((UWriteHeader
             (trigger_code o)) :: [])
      else []
  in
  (match o with
   | OWriteHeader _ -> first
   | OWrite (bs, acc) ->
     app first
       (if head then [] else (UWrite (bs, (N.min acc (slen bs)))) :: [])
   | OFlush -> app first (UFlush :: [])
   | OBefore _ -> []
   | OStatus -> (AStatus (match j.sent with
                          | Some c -> c
                          | None -> Z0)) :: []
   | OSize -> (ASize j.fwd) :: []
   | OWritten ->
     (AWritten (match j.sent with
                | Some _ -> true
                | None -> false)) :: [])

(** val observe : judge -> ev list -> judge **)

let rec observe j = function
| [] -> j
| e :: es' ->
  (match e with
   | UWriteHeader c ->
     observe { sent = (match j.sent with
                       | Some z -> Some z
                       | None -> Some c); fwd = j.fwd; regs = j.regs } es'
   | UWrite (_, n) ->
     observe { sent = j.sent; fwd = (N.add j.fwd n); regs = j.regs } es'
   | _ -> observe j es')

(** val jstep : judge -> op -> ev list -> judge **)

let jstep j o es =
  let j1 = observe j es in
  (match o with
   | OBefore id ->
     { sent = j1.sent; fwd = j1.fwd; regs = (app j1.regs (id :: [])) }
   | _ -> j1)

(** val judge_from : bool -> judge -> op list -> ev list list -> bool **)

let rec judge_from head j ops outs =
  match ops with
  | [] -> (match outs with
           | [] -> true
           | _ :: _ -> false)
  | o :: ops' ->
    (match outs with
     | [] -> false
     | es :: outs' ->
       (&&) (list_eqb ev_eqb es (expected head j o))
         (judge_from head (jstep j o es) ops' outs'))

(** val spec_ok : bool -> op list -> ev list list -> bool **)

let spec_ok head ops outs =
  judge_from head jinit ops outs

(** val valid_op : op -> bool **)

let valid_op = function
| OWriteHeader c -> negb (Z.eqb c Z0)
| _ -> true
