open Base
open BinInt
open BinNat
open BinNums
open Bool
open Datatypes
open List
open PeanoNat

type op =
| OWriteHeader of coq_Z
| OWrite of str * coq_N
| OFlush
| OBefore of nat
| OStatus
| OSize
| OWritten

type ev =
| UWriteHeader of coq_Z
| UWrite of str * coq_N
| UFlush
| EHook of nat * coq_Z
| AStatus of coq_Z
| ASize of coq_N
| AWritten of bool

type st = { status : coq_Z; size : coq_N; hooks : nat list; once : bool }

val init : st

val write_header : st -> coq_Z -> st * ev list

val ensure_header : st -> st * ev list

val step : bool -> st -> op -> st * ev list

val run_from : bool -> st -> op list -> ev list list

val run : bool -> op list -> ev list list

type judge = { sent : coq_Z option; fwd : coq_N; regs : nat list }

val jinit : judge

val is_trigger : op -> bool

val trigger_code : op -> coq_Z

val ev_eqb : ev -> ev -> bool

val expected : bool -> judge -> op -> ev list

val observe : judge -> ev list -> judge

val jstep : judge -> op -> ev list -> judge

val judge_from : bool -> judge -> op list -> ev list list -> bool

val spec_ok : bool -> op list -> ev list list -> bool

val valid_op : op -> bool
