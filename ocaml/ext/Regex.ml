open Base
open BinNat
open BinNums
open Datatypes
open List
open Nat

type cls =
| CRanges of (coq_N * coq_N) list
| CAny

(** val in_ranges : (coq_N * coq_N) list -> coq_N -> bool **)

let in_ranges rs c =
  existsb (fun r -> (&&) (N.leb (fst r) c) (N.leb c (snd r))) rs

(** val cls_mem : cls -> coq_N -> bool **)

let cls_mem k c =
  match k with
  | CRanges rs -> in_ranges rs c
  | CAny -> negb (N.eqb c (Npos (Coq_xO (Coq_xI (Coq_xO Coq_xH)))))

type re =
| Eps
| Chr of cls
| Cat of re * re
| Alt of re * re
| Star of re
| Grp of nat * re

type caps = (nat * str) list

(** val loop :
    (str -> caps -> (str -> caps -> 'a1 option) -> 'a1 option) -> (str ->
    caps -> 'a1 option) -> nat -> str -> caps -> 'a1 option **)

let rec loop ma k n s c =
  match n with
  | O -> k s c
  | S n' ->
    (match ma s c (fun s' c' ->
             if PeanoNat.Nat.ltb (length s') (length s)
             then loop ma k n' s' c'
             else None) with
     | Some x -> Some x
     | None -> k s c)

(** val m : re -> str -> caps -> (str -> caps -> 'a1 option) -> 'a1 option **)

let rec m r s c k =
  match r with
  | Eps -> k s c
  | Chr p ->
    (match s with
     | [] -> None
     | x :: s' -> if cls_mem p x then k s' c else None)
  | Cat (a, b) -> m a s c (fun s' c' -> m b s' c' k)
  | Alt (a, b) -> (match m a s c k with
                   | Some x -> Some x
                   | None -> m b s c k)
  | Star a -> loop (m a) k (length s) s c
  | Grp (i, a) ->
    m a s c (fun s' c' ->
      k s' ((i, (firstn (sub (length s) (length s')) s)) :: c'))

(** val full : re -> str -> caps option **)

let full r s =
  m r s [] (fun s' c -> match s' with
                        | [] -> Some c
                        | _ :: _ -> None)

(** val lookup : nat -> caps -> str option **)

let rec lookup i = function
| [] -> None
| p :: c' ->
  let (j, v) = p in if PeanoNat.Nat.eqb i j then Some v else lookup i c'

(** val prefix_match : re -> str -> bool **)

let prefix_match r s =
  match m r s [] (fun _ _ -> Some ()) with
  | Some _ -> true
  | None -> false

(** val search : re -> str -> bool **)

let rec search r s =
  (||) (prefix_match r s) (match s with
                           | [] -> false
                           | _ :: s' -> search r s')

(** val lit_re : str -> re **)

let rec lit_re = function
| [] -> Eps
| x :: l' -> Cat ((Chr (CRanges ((x, x) :: []))), (lit_re l'))

(** val plus : re -> re **)

let plus a =
  Cat (a, (Star a))

(** val opt : re -> re **)

let opt a =
  Alt (a, Eps)
