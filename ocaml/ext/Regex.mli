open Base
open BinNat
open BinNums
open Datatypes
open List
open Nat

type cls =
| CRanges of (coq_N * coq_N) list
| CAny

val in_ranges : (coq_N * coq_N) list -> coq_N -> bool

val cls_mem : cls -> coq_N -> bool

type re =
| Eps
| Chr of cls
| Cat of re * re
| Alt of re * re
| Star of re
| Grp of nat * re

type caps = (nat * str) list

val loop :
  (str -> caps -> (str -> caps -> 'a1 option) -> 'a1 option) -> (str -> caps
  -> 'a1 option) -> nat -> str -> caps -> 'a1 option

val m : re -> str -> caps -> (str -> caps -> 'a1 option) -> 'a1 option

val full : re -> str -> caps option

val lookup : nat -> caps -> str option

val prefix_match : re -> str -> bool

val search : re -> str -> bool

val lit_re : str -> re

val plus : re -> re

val opt : re -> re
