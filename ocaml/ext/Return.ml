open Base
open BinInt
open BinNums
open Datatypes
open List

type rv =
| RStr of str
| RBytes of str option
| RErr of str option
| RInt of coq_Z
| RPtr of str option
| ROther

type wop =
| WHeader of coq_Z
| WBody of str

(** val is_zero : rv -> bool **)

let is_zero = function
| RStr s -> (match s with
             | [] -> true
             | _ :: _ -> false)
| RBytes b -> (match b with
               | Some _ -> false
               | None -> true)
| RErr e -> (match e with
             | Some _ -> false
             | None -> true)
| RInt n -> (match n with
             | Z0 -> true
             | _ -> false)
| RPtr p -> (match p with
             | Some _ -> false
             | None -> true)
| ROther -> false

(** val render_val : rv -> wop list **)

let render_val v = match v with
| RErr e ->
  (match e with
   | Some msg ->
     (WHeader (Zpos (Coq_xO (Coq_xO (Coq_xI (Coq_xO (Coq_xI (Coq_xI (Coq_xI
       (Coq_xI Coq_xH)))))))))) :: ((WBody msg) :: [])
   | None ->
     if is_zero v
     then []
     else (match v with
           | RStr s -> (WBody s) :: []
           | RBytes b0 ->
             (match b0 with
              | Some b -> (match b with
                           | [] -> []
                           | _ :: _ -> (WBody b) :: [])
              | None -> [])
           | RPtr p -> (match p with
                        | Some s -> (WBody s) :: []
                        | None -> [])
           | _ -> []))
| _ ->
  if is_zero v
  then []
  else (match v with
        | RStr s -> (WBody s) :: []
        | RBytes b0 ->
          (match b0 with
           | Some b -> (match b with
                        | [] -> []
                        | _ :: _ -> (WBody b) :: [])
           | None -> [])
        | RPtr p -> (match p with
                     | Some s -> (WBody s) :: []
                     | None -> [])
        | _ -> [])

(** val is_str_or_bytes : rv -> bool **)

let is_str_or_bytes = function
| RStr _ -> true
| RBytes _ -> true
| _ -> false

(** val render : rv list -> wop list **)

let render = function
| [] -> []
| v0 :: l ->
  (match v0 with
   | RInt n ->
     (match l with
      | [] -> render_val v0
      | v1 :: l0 ->
        (match l0 with
         | [] -> (WHeader n) :: (render_val v1)
         | _ :: _ -> []))
   | _ ->
     (match l with
      | [] -> render_val v0
      | v1 :: l0 ->
        (match l0 with
         | [] ->
           if is_str_or_bytes v0
           then (match v1 with
                 | RErr e ->
                   (match e with
                    | Some _ -> render_val v1
                    | None -> render_val v0)
                 | _ -> render_val v0)
           else []
         | _ :: _ -> [])))

(** val body_of : rv -> str option **)

let body_of = function
| RStr s -> Some s
| RBytes b0 -> (match b0 with
                | Some b -> Some b
                | None -> Some [])
| _ -> None

(** val table : rv list -> (coq_Z * str) option **)

let table = function
| [] -> None
| v :: l ->
  (match v with
   | RErr e ->
     (match e with
      | Some msg ->
        (match l with
         | [] ->
           Some ((Zpos (Coq_xO (Coq_xO (Coq_xI (Coq_xO (Coq_xI (Coq_xI
             (Coq_xI (Coq_xI Coq_xH))))))))), msg)
         | r :: l0 ->
           (match r with
            | RErr e0 ->
              (match e0 with
               | Some msg0 ->
                 (match l0 with
                  | [] ->
                    (match body_of v with
                     | Some _ ->
                       Some ((Zpos (Coq_xO (Coq_xO (Coq_xI (Coq_xO (Coq_xI
                         (Coq_xI (Coq_xI (Coq_xI Coq_xH))))))))), msg0)
                     | None -> None)
                  | _ :: _ -> None)
               | None ->
                 (match l0 with
                  | [] ->
                    (match body_of v with
                     | Some b ->
                       (match b with
                        | [] -> None
                        | _ :: _ ->
                          Some ((Zpos (Coq_xO (Coq_xO (Coq_xO (Coq_xI (Coq_xO
                            (Coq_xO (Coq_xI Coq_xH)))))))), b))
                     | None -> None)
                  | _ :: _ -> None))
            | _ -> None))
      | None ->
        (match l with
         | [] -> None
         | r :: l0 ->
           (match r with
            | RErr e0 ->
              (match e0 with
               | Some msg ->
                 (match l0 with
                  | [] ->
                    (match body_of v with
                     | Some _ ->
                       Some ((Zpos (Coq_xO (Coq_xO (Coq_xI (Coq_xO (Coq_xI
                         (Coq_xI (Coq_xI (Coq_xI Coq_xH))))))))), msg)
                     | None -> None)
                  | _ :: _ -> None)
               | None ->
                 (match l0 with
                  | [] ->
                    (match body_of v with
                     | Some b ->
                       (match b with
                        | [] -> None
                        | _ :: _ ->
                          Some ((Zpos (Coq_xO (Coq_xO (Coq_xO (Coq_xI (Coq_xO
                            (Coq_xO (Coq_xI Coq_xH)))))))), b))
                     | None -> None)
                  | _ :: _ -> None))
            | _ -> None)))
   | RInt n ->
     (match l with
      | [] ->
        (match body_of v with
         | Some b ->
           (match b with
            | [] -> None
            | _ :: _ ->
              Some ((Zpos (Coq_xO (Coq_xO (Coq_xO (Coq_xI (Coq_xO (Coq_xO
                (Coq_xI Coq_xH)))))))), b))
         | None -> None)
      | v0 :: l0 ->
        (match v0 with
         | RErr e ->
           (match e with
            | Some msg -> (match l0 with
                           | [] -> Some (n, msg)
                           | _ :: _ -> None)
            | None -> (match l0 with
                       | [] -> Some (n, [])
                       | _ :: _ -> None))
         | _ ->
           (match l0 with
            | [] ->
              (match body_of v0 with
               | Some b -> Some (n, b)
               | None -> None)
            | _ :: _ -> None)))
   | _ ->
     (match l with
      | [] ->
        (match body_of v with
         | Some b ->
           (match b with
            | [] -> None
            | _ :: _ ->
              Some ((Zpos (Coq_xO (Coq_xO (Coq_xO (Coq_xI (Coq_xO (Coq_xO
                (Coq_xI Coq_xH)))))))), b))
         | None -> None)
      | r :: l0 ->
        (match r with
         | RErr e ->
           (match e with
            | Some msg ->
              (match l0 with
               | [] ->
                 (match body_of v with
                  | Some _ ->
                    Some ((Zpos (Coq_xO (Coq_xO (Coq_xI (Coq_xO (Coq_xI
                      (Coq_xI (Coq_xI (Coq_xI Coq_xH))))))))), msg)
                  | None -> None)
               | _ :: _ -> None)
            | None ->
              (match l0 with
               | [] ->
                 (match body_of v with
                  | Some b ->
                    (match b with
                     | [] -> None
                     | _ :: _ ->
                       Some ((Zpos (Coq_xO (Coq_xO (Coq_xO (Coq_xI (Coq_xO
                         (Coq_xO (Coq_xI Coq_xH)))))))), b))
                  | None -> None)
               | _ :: _ -> None))
         | _ -> None)))

(** val apply_wops : wop list -> (coq_Z * str) option **)

let apply_wops ops =
  fold_left (fun acc o ->
    match o with
    | WHeader c -> (match acc with
                    | Some r -> Some r
                    | None -> Some (c, []))
    | WBody b ->
      (match acc with
       | Some p -> let (c, b0) = p in Some (c, (app b0 b))
       | None ->
         Some ((Zpos (Coq_xO (Coq_xO (Coq_xO (Coq_xI (Coq_xO (Coq_xO (Coq_xI
           Coq_xH)))))))), b))) ops None

(** val supported : rv list -> bool **)

let supported = function
| [] -> false
| r :: l ->
  (match r with
   | RStr _ ->
     (match l with
      | [] -> true
      | r0 :: l0 ->
        (match r0 with
         | RErr _ -> (match l0 with
                      | [] -> true
                      | _ :: _ -> false)
         | _ -> false))
   | RBytes _ ->
     (match l with
      | [] -> true
      | r0 :: l0 ->
        (match r0 with
         | RErr _ -> (match l0 with
                      | [] -> true
                      | _ :: _ -> false)
         | _ -> false))
   | RErr _ -> (match l with
                | [] -> true
                | _ :: _ -> false)
   | RInt n ->
     (match l with
      | [] -> false
      | r0 :: l0 ->
        (match r0 with
         | RStr _ -> (match l0 with
                      | [] -> negb (Z.eqb n Z0)
                      | _ :: _ -> false)
         | RBytes _ ->
           (match l0 with
            | [] -> negb (Z.eqb n Z0)
            | _ :: _ -> false)
         | RErr _ -> (match l0 with
                      | [] -> negb (Z.eqb n Z0)
                      | _ :: _ -> false)
         | _ -> false))
   | _ -> false)
