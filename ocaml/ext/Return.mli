open Base
open BinInt
open BinNums
open Datatypes
open List

type rv =
| RStr of str
| RBytes of str option
| RErr of str option
| RInt of coq_Z
| RPtr of str option
| ROther

type wop =
| WHeader of coq_Z
| WBody of str

val is_zero : rv -> bool

val render_val : rv -> wop list

val is_str_or_bytes : rv -> bool

val render : rv list -> wop list

val body_of : rv -> str option

val table : rv list -> (coq_Z * str) option

val apply_wops : wop list -> (coq_Z * str) option

val supported : rv list -> bool
