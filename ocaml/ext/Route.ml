open Base
open BinNums
open Datatypes
open List

type pval =
| VLit of str
| VRegex of str

type elem =
| EIdent of str
| EBind of str
| EParams of (str * pval) list

type segment = { optional : bool; elems : elem list }

type route = segment list

(** val c_slash : coq_N **)

let c_slash =
  Npos (Coq_xI (Coq_xI (Coq_xI (Coq_xI (Coq_xO Coq_xH)))))

(** val c_qmark : coq_N **)

let c_qmark =
  Npos (Coq_xI (Coq_xI (Coq_xI (Coq_xI (Coq_xI Coq_xH)))))

(** val c_lbrace : coq_N **)

let c_lbrace =
  Npos (Coq_xI (Coq_xI (Coq_xO (Coq_xI (Coq_xI (Coq_xI Coq_xH))))))

(** val c_rbrace : coq_N **)

let c_rbrace =
  Npos (Coq_xI (Coq_xO (Coq_xI (Coq_xI (Coq_xI (Coq_xI Coq_xH))))))

(** val c_colon : coq_N **)

let c_colon =
  Npos (Coq_xO (Coq_xI (Coq_xO (Coq_xI (Coq_xI Coq_xH)))))

(** val c_comma : coq_N **)

let c_comma =
  Npos (Coq_xO (Coq_xO (Coq_xI (Coq_xI (Coq_xO Coq_xH)))))

(** val c_space : coq_N **)

let c_space =
  Npos (Coq_xO (Coq_xO (Coq_xO (Coq_xO (Coq_xO Coq_xH)))))

(** val c_star : coq_N **)

let c_star =
  Npos (Coq_xO (Coq_xI (Coq_xO (Coq_xI (Coq_xO Coq_xH)))))

(** val render_pval : pval -> str **)

let render_pval = function
| VLit s -> s
| VRegex src -> app (c_slash :: []) (app src (c_slash :: []))

(** val render_params : (str * pval) list -> str **)

let rec render_params = function
| [] -> []
| p :: ps' ->
  let (n, v) = p in
  (match ps' with
   | [] -> app n (app (c_colon :: (c_space :: [])) (render_pval v))
   | _ :: _ ->
     app n
       (app (c_colon :: (c_space :: []))
         (app (render_pval v)
           (app (c_comma :: (c_space :: [])) (render_params ps')))))

(** val render_elem : elem -> str **)

let render_elem = function
| EIdent s -> s
| EBind b -> app (c_lbrace :: []) (app b (c_rbrace :: []))
| EParams ps -> app (c_lbrace :: []) (app (render_params ps) (c_rbrace :: []))

(** val render_elems : elem list -> str **)

let render_elems es =
  concat (map render_elem es)

(** val render_segment : segment -> str **)

let render_segment s =
  app (c_slash :: [])
    (app (if s.optional then c_qmark :: [] else []) (render_elems s.elems))

(** val render_route : route -> str **)

let render_route r =
  concat (map render_segment r)
