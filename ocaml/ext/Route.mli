open Base
open BinNums
open Datatypes
open List

type pval =
| VLit of str
| VRegex of str

type elem =
| EIdent of str
| EBind of str
| EParams of (str * pval) list

type segment = { optional : bool; elems : elem list }

type route = segment list

val c_slash : coq_N

val c_qmark : coq_N

val c_lbrace : coq_N

val c_rbrace : coq_N

val c_colon : coq_N

val c_comma : coq_N

val c_space : coq_N

val c_star : coq_N

val render_pval : pval -> str

val render_params : (str * pval) list -> str

val render_elem : elem -> str

val render_elems : elem list -> str

val render_segment : segment -> str

val render_route : route -> str
