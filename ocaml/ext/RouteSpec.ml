open Base
open Bool
open Datatypes
open List
open PeanoNat
open Regex
open Route
open Tree

type flat = { f_rid : nat; f_texts : str list; f_kinds : kind list }

(** val seg_kind : (str -> re option) -> bool -> segment -> kind option **)

let seg_kind compile as_leaf s =
  classify compile as_leaf [] false s.elems

(** val kinds_of : (str -> re option) -> route -> kind list option **)

let rec kinds_of compile = function
| [] -> Some []
| s :: r' ->
  (match r' with
   | [] ->
     (match seg_kind compile true s with
      | Some k -> Some (k :: [])
      | None -> None)
   | _ :: _ ->
     (match seg_kind compile false s with
      | Some k ->
        (match kinds_of compile r' with
         | Some l -> Some (k :: l)
         | None -> None)
      | None -> None))

(** val last_optional : route -> bool **)

let last_optional r =
  match rev r with
  | [] -> false
  | s :: _ -> s.optional

(** val short_form : route -> route **)

let short_form r =
  match rev r with
  | [] -> []
  | _ :: rest ->
    (match rest with
     | [] -> { optional = false; elems = [] } :: []
     | _ :: _ -> rev rest)

(** val flats_of : (str -> re option) -> nat -> route -> flat list **)

let flats_of compile rid r =
  let mk = fun q ->
    match kinds_of compile q with
    | Some ks ->
      { f_rid = rid; f_texts = (map seg_key q); f_kinds = ks } :: []
    | None -> []
  in
  app (mk r) (if last_optional r then mk (short_form r) else [])

(** val all_flats : (str -> re option) -> (nat * route) list -> flat list **)

let all_flats compile rs =
  flat_map (fun p -> flats_of compile (fst p) (snd p)) rs

(** val route_binds : kind list -> str list **)

let route_binds ks =
  flat_map kind_binds ks

(** val prefix_eq : str list -> str list -> nat -> bool **)

let rec prefix_eq a b = function
| O -> true
| S i' ->
  (match a with
   | [] -> false
   | x :: a' ->
     (match b with
      | [] -> false
      | y :: b' -> (&&) (str_eqb x y) (prefix_eq a' b' i')))

(** val is_final : 'a1 list -> nat -> bool **)

let is_final l i =
  Nat.eqb (S i) (length l)

(** val all_clash : flat -> flat -> bool **)

let all_clash f g =
  existsb (fun i ->
    (&&) (prefix_eq f.f_texts g.f_texts i)
      (match nth_error f.f_kinds i with
       | Some kf ->
         (match nth_error g.f_kinds i with
          | Some kg ->
            (match nth_error f.f_texts i with
             | Some tf ->
               (match nth_error g.f_texts i with
                | Some tg ->
                  (&&)
                    ((&&) ((&&) (is_all kf) (is_all kg))
                      (negb (str_eqb tf tg)))
                    (eqb (is_final f.f_texts i) (is_final g.f_texts i))
                | None -> false)
             | None -> false)
          | None -> false)
       | None -> false)) (seq O (length f.f_texts))

(** val same_texts : flat -> flat -> bool **)

let same_texts f g =
  list_eqb str_eqb f.f_texts g.f_texts

(** val init_segs : 'a1 list -> 'a1 list **)

let rec init_segs = function
| [] -> []
| x :: l' -> (match l' with
              | [] -> []
              | _ :: _ -> x :: (init_segs l'))

(** val valid : (str -> re option) -> (nat * route) list -> route -> bool **)

let valid compile rs r =
  (&&)
    ((&&) (match r with
           | [] -> false
           | _ :: _ -> true)
      (forallb (fun s ->
        (&&) (negb s.optional)
          (negb (match s.elems with
                 | [] -> true
                 | _ :: _ -> false))) (init_segs r)))
    (match kinds_of compile r with
     | Some ks ->
       (&&)
         ((&&)
           ((&&) (nodup_str (route_binds ks))
             (Nat.leb (length (filter is_all (init_segs ks))) (S O)))
           (if last_optional r
            then (match kinds_of compile (short_form r) with
                  | Some _ -> true
                  | None -> false)
            else true))
         (let fs = all_flats compile rs in
          forallb (fun g ->
            forallb (fun f ->
              (&&) (negb (all_clash f g)) (negb (same_texts f g))) fs)
            (flats_of compile O r))
     | None -> false)

type keyel = ((nat * nat) * nat) * nat

type key = keyel list

(** val keyel_cmp : keyel -> keyel -> comparison **)

let keyel_cmp a b =
  let (p, a4) = a in
  let (p0, a3) = p in
  let (a1, a2) = p0 in
  let (p1, b4) = b in
  let (p2, b3) = p1 in
  let (b1, b2) = p2 in
  (match Nat.compare a1 b1 with
   | Eq ->
     (match Nat.compare a2 b2 with
      | Eq -> (match Nat.compare a3 b3 with
               | Eq -> Nat.compare a4 b4
               | x -> x)
      | x -> x)
   | x -> x)

(** val key_cmp : key -> key -> comparison **)

let rec key_cmp a b =
  match a with
  | [] -> (match b with
           | [] -> Eq
           | _ :: _ -> Lt)
  | x :: a' ->
    (match b with
     | [] -> Gt
     | y :: b' -> (match keyel_cmp x y with
                   | Eq -> key_cmp a' b'
                   | x0 -> x0))

(** val birth : flat list -> flat -> nat -> nat **)

let birth fs f d =
  fold_left (fun best g ->
    if (&&) (prefix_eq f.f_texts g.f_texts (S d))
         (eqb (is_final f.f_texts d) (is_final g.f_texts d))
    then Nat.min best g.f_rid
    else best) fs f.f_rid

(** val seg_adm : kind -> str -> bool **)

let seg_adm k s =
  match seg_match k s with
  | Some _ -> true
  | None -> false

(** val derivs :
    flat list -> flat -> kind list -> nat -> str list -> key -> key list **)

let rec derivs fs f ks d path acc =
  match ks with
  | [] -> []
  | k :: ks' ->
    (match ks' with
     | [] ->
       (match path with
        | [] -> []
        | s :: l ->
          (match l with
           | [] ->
             if seg_adm k s
             then (app acc ((((O, (rank k)), (birth fs f d)), O) :: [])) :: []
             else []
           | _ :: _ ->
             (match k with
              | KAll (_, cap) ->
                if cap_ok cap (length path)
                then (app acc (((((S O), (rank k)), (birth fs f d)),
                       (length path)) :: [])) :: []
                else []
              | _ -> [])))
     | _ :: _ ->
       (match path with
        | [] -> []
        | s :: rest ->
          (match rest with
           | [] -> []
           | _ :: _ ->
             (match k with
              | KAll (_, cap) ->
                flat_map (fun n ->
                  if (&&) (cap_ok cap n) (Nat.ltb n (length path))
                  then derivs fs f ks' (S d) (skipn n path)
                         (app acc ((((O, (rank k)), (birth fs f d)),
                           n) :: []))
                  else []) (seq (S O) (length path))
              | _ ->
                if seg_adm k s
                then derivs fs f ks' (S d) rest
                       (app acc ((((O, (rank k)), (birth fs f d)), O) :: []))
                else []))))

(** val best_of : (key * nat) list -> nat option **)

let best_of = function
| [] -> None
| c :: cs ->
  Some
    (snd
      (fold_left (fun b x ->
        match key_cmp (fst x) (fst b) with
        | Lt -> x
        | _ -> b) cs c))

(** val spec_winner :
    (str -> re option) -> (nat * route) list -> (nat -> bool) -> str list ->
    nat option **)

let spec_winner compile rs hdr_ok path =
  let fs = all_flats compile rs in
  best_of
    (flat_map (fun f ->
      if hdr_ok f.f_rid
      then map (fun k -> (k, f.f_rid)) (derivs fs f f.f_kinds O path [])
      else []) fs)
