open Base
open Bool
open Datatypes
open List
open PeanoNat
open Regex
open Route
open Tree

type flat = { f_rid : nat; f_texts : str list; f_kinds : kind list }

val seg_kind : (str -> re option) -> bool -> segment -> kind option

val kinds_of : (str -> re option) -> route -> kind list option

val last_optional : route -> bool

val short_form : route -> route

val flats_of : (str -> re option) -> nat -> route -> flat list

val all_flats : (str -> re option) -> (nat * route) list -> flat list

val route_binds : kind list -> str list

val prefix_eq : str list -> str list -> nat -> bool

val is_final : 'a1 list -> nat -> bool

val all_clash : flat -> flat -> bool

val same_texts : flat -> flat -> bool

val init_segs : 'a1 list -> 'a1 list

val valid : (str -> re option) -> (nat * route) list -> route -> bool

type keyel = ((nat * nat) * nat) * nat

type key = keyel list

val keyel_cmp : keyel -> keyel -> comparison

val key_cmp : key -> key -> comparison

val birth : flat list -> flat -> nat -> nat

val seg_adm : kind -> str -> bool

val derivs :
  flat list -> flat -> kind list -> nat -> str list -> key -> key list

val best_of : (key * nat) list -> nat option

val spec_winner :
  (str -> re option) -> (nat * route) list -> (nat -> bool) -> str list ->
  nat option
