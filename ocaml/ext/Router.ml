open Base
open BinNat
open BinNums
open Datatypes
open List
open PeanoNat
open Regex
open Route
open Tree

(** val hex_val : coq_N -> coq_N option **)

let hex_val c =
  if (&&)
       (N.leb (Npos (Coq_xO (Coq_xO (Coq_xO (Coq_xO (Coq_xI Coq_xH)))))) c)
       (N.leb c (Npos (Coq_xI (Coq_xO (Coq_xO (Coq_xI (Coq_xI Coq_xH)))))))
  then Some
         (N.sub c (Npos (Coq_xO (Coq_xO (Coq_xO (Coq_xO (Coq_xI Coq_xH)))))))
  else if (&&)
            (N.leb (Npos (Coq_xI (Coq_xO (Coq_xO (Coq_xO (Coq_xO (Coq_xI
              Coq_xH))))))) c)
            (N.leb c (Npos (Coq_xO (Coq_xI (Coq_xI (Coq_xO (Coq_xO (Coq_xI
              Coq_xH))))))))
       then Some
              (N.sub c (Npos (Coq_xI (Coq_xI (Coq_xI (Coq_xO (Coq_xI (Coq_xO
                Coq_xH))))))))
       else if (&&)
                 (N.leb (Npos (Coq_xI (Coq_xO (Coq_xO (Coq_xO (Coq_xO (Coq_xO
                   Coq_xH))))))) c)
                 (N.leb c (Npos (Coq_xO (Coq_xI (Coq_xI (Coq_xO (Coq_xO
                   (Coq_xO Coq_xH))))))))
            then Some
                   (N.sub c (Npos (Coq_xI (Coq_xI (Coq_xI (Coq_xO (Coq_xI
                     Coq_xH)))))))
            else None

(** val path_unescape : str -> str option **)

let rec path_unescape = function
| [] -> Some []
| c :: rest ->
  (match c with
   | N0 ->
     (match path_unescape rest with
      | Some r -> Some (c :: r)
      | None -> None)
   | Npos p ->
     (match p with
      | Coq_xI p0 ->
        (match p0 with
         | Coq_xO p1 ->
           (match p1 with
            | Coq_xI p2 ->
              (match p2 with
               | Coq_xO p3 ->
                 (match p3 with
                  | Coq_xO p4 ->
                    (match p4 with
                     | Coq_xH ->
                       (match rest with
                        | [] -> None
                        | h :: l0 ->
                          (match l0 with
                           | [] -> None
                           | l :: rest' ->
                             (match hex_val h with
                              | Some a ->
                                (match hex_val l with
                                 | Some b ->
                                   (match path_unescape rest' with
                                    | Some r ->
                                      Some
                                        ((N.add
                                           (N.mul a (Npos (Coq_xO (Coq_xO
                                             (Coq_xO (Coq_xO Coq_xH)))))) b) :: r)
                                    | None -> None)
                                 | None -> None)
                              | None -> None)))
                     | _ ->
                       (match path_unescape rest with
                        | Some r -> Some (c :: r)
                        | None -> None))
                  | _ ->
                    (match path_unescape rest with
                     | Some r -> Some (c :: r)
                     | None -> None))
               | _ ->
                 (match path_unescape rest with
                  | Some r -> Some (c :: r)
                  | None -> None))
            | _ ->
              (match path_unescape rest with
               | Some r -> Some (c :: r)
               | None -> None))
         | _ ->
           (match path_unescape rest with
            | Some r -> Some (c :: r)
            | None -> None))
      | _ ->
        (match path_unescape rest with
         | Some r -> Some (c :: r)
         | None -> None)))

(** val decode1 : str -> str **)

let decode1 v =
  match path_unescape v with
  | Some d -> d
  | None -> v

(** val trim_slashes : str -> str **)

let rec trim_slashes s = match s with
| [] -> []
| c :: s' -> if N.eqb c c_slash then trim_slashes s' else s

(** val split_slash : str -> str -> str list **)

let rec split_slash cur = function
| [] -> (rev cur) :: []
| c :: s' ->
  if N.eqb c c_slash
  then (rev cur) :: (split_slash [] s')
  else split_slash (c :: cur) s'

(** val segs_of : str -> str list **)

let segs_of path =
  split_slash [] (trim_slashes path)

(** val n_methods : nat **)

let n_methods =
  S (S (S (S (S (S (S (S (S O))))))))

(** val is_static_route : route -> bool **)

let is_static_route r =
  (&&)
    (forallb (fun s ->
      (&&) (negb s.optional)
        (match s.elems with
         | [] -> true
         | e :: l ->
           (match e with
            | EIdent _ -> (match l with
                           | [] -> true
                           | _ :: _ -> false)
            | _ -> false))) r)
    (negb (match r with
           | [] -> true
           | _ :: _ -> false))

type hconstraint = (str * re) list

type rinfo = { ri_route : route; ri_methods : nat list;
               ri_hdr : hconstraint option }

type rstate = { trees : tree list; table : ((nat * str) * nat) list;
                infos : rinfo list }

(** val rinit : rstate **)

let rinit =
  { trees = (repeat empty n_methods); table = []; infos = [] }

(** val add_methods :
    (str -> re option) -> tree list -> nat list -> route -> nat -> tree list
    option **)

let rec add_methods compile ts ms r rid =
  match ms with
  | [] -> Some ts
  | m :: ms' ->
    (match nth_error ts m with
     | Some t ->
       (match add_route compile t r rid with
        | Some t' ->
          add_methods compile (app (firstn m ts) (t' :: (skipn (S m) ts)))
            ms' r rid
        | None -> None)
     | None -> None)

(** val register :
    (str -> re option) -> rstate -> nat list -> route -> rstate option **)

let register compile st ms r =
  let rid = length st.infos in
  (match ms with
   | [] -> None
   | _ :: _ ->
     (match add_methods compile st.trees ms r rid with
      | Some ts ->
        let text = render_route r in
        let tab =
          if is_static_route r
          then app (map (fun m -> ((m, text), rid)) ms)
                 (filter (fun e ->
                   negb
                     ((&&) (existsb (Nat.eqb (fst (fst e))) ms)
                       (str_eqb (snd (fst e)) text))) st.table)
          else st.table
        in
        Some { trees = ts; table = tab; infos =
        (app st.infos ({ ri_route = r; ri_methods = ms; ri_hdr =
          None } :: [])) }
      | None -> None))

(** val set_headers : rstate -> nat -> hconstraint -> rstate **)

let set_headers st rid h =
  match nth_error st.infos rid with
  | Some ri ->
    { trees = st.trees; table =
      (filter (fun e -> negb (Nat.eqb (snd e) rid)) st.table); infos =
      (app (firstn rid st.infos) ({ ri_route = ri.ri_route; ri_methods =
        ri.ri_methods; ri_hdr = (Some h) } :: (skipn (S rid) st.infos))) }
  | None -> st

(** val header_get : (str * str) list -> str -> str **)

let header_get hdrs name =
  match find (fun p -> str_eqb (fst p) name) hdrs with
  | Some p -> snd p
  | None -> []

(** val constraint_ok : hconstraint -> (str * str) list -> bool **)

let constraint_ok h hdrs =
  forallb (fun c ->
    let v = header_get hdrs (fst c) in
    (&&) (negb (match v with
                | [] -> true
                | _ :: _ -> false)) (search (snd c) v)) h

(** val hdr_ok : rstate -> (str * str) list -> nat -> bool **)

let hdr_ok st hdrs rid =
  match nth_error st.infos rid with
  | Some ri ->
    (match ri.ri_hdr with
     | Some h -> constraint_ok h hdrs
     | None -> true)
  | None -> true

type outcome =
| Found of nat * params
| NotFound

(** val serve_tree :
    rstate -> nat option -> str -> (str * str) list -> outcome **)

let serve_tree st m path hdrs =
  match m with
  | Some mi ->
    (match nth_error st.trees mi with
     | Some t ->
       (match mtree (hdr_ok st hdrs) t (segs_of path) with
        | Some p ->
          let (rid, ps) = p in
          Found (rid, (map (fun p0 -> ((fst p0), (decode1 (snd p0)))) ps))
        | None -> NotFound)
     | None -> NotFound)
  | None -> NotFound

(** val table_lookup : rstate -> nat -> str -> nat option **)

let table_lookup st mi path =
  match find (fun e ->
          (&&) (Nat.eqb (fst (fst e)) mi) (str_eqb (snd (fst e)) path))
          st.table with
  | Some e -> Some (snd e)
  | None -> None

(** val serve : rstate -> nat option -> str -> (str * str) list -> outcome **)

let serve st m path hdrs =
  match m with
  | Some mi ->
    (match table_lookup st mi path with
     | Some rid -> Found (rid, [])
     | None -> serve_tree st m path hdrs)
  | None -> serve_tree st m path hdrs
