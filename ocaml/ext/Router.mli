open Base
open BinNat
open BinNums
open Datatypes
open List
open PeanoNat
open Regex
open Route
open Tree

val hex_val : coq_N -> coq_N option

val path_unescape : str -> str option

val decode1 : str -> str

val trim_slashes : str -> str

val split_slash : str -> str -> str list

val segs_of : str -> str list

val n_methods : nat

val is_static_route : route -> bool

type hconstraint = (str * re) list

type rinfo = { ri_route : route; ri_methods : nat list;
               ri_hdr : hconstraint option }

type rstate = { trees : tree list; table : ((nat * str) * nat) list;
                infos : rinfo list }

val rinit : rstate

val add_methods :
  (str -> re option) -> tree list -> nat list -> route -> nat -> tree list
  option

val register :
  (str -> re option) -> rstate -> nat list -> route -> rstate option

val set_headers : rstate -> nat -> hconstraint -> rstate

val header_get : (str * str) list -> str -> str

val constraint_ok : hconstraint -> (str * str) list -> bool

val hdr_ok : rstate -> (str * str) list -> nat -> bool

type outcome =
| Found of nat * params
| NotFound

val serve_tree : rstate -> nat option -> str -> (str * str) list -> outcome

val table_lookup : rstate -> nat -> str -> nat option

val serve : rstate -> nat option -> str -> (str * str) list -> outcome
