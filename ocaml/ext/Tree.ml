open Base
open BinInt
open BinNat
open BinNums
open Datatypes
open List
open PeanoNat
open Regex
open Route

type piece =
| PLit of str
| PBind of str * re

type kind =
| KStatic of str
| KRegex of piece list
| KPlace of str
| KAll of str * coq_Z

(** val rank : kind -> nat **)

let rank = function
| KStatic _ -> S O
| KRegex _ -> S (S O)
| KPlace _ -> S (S (S O))
| KAll (_, _) -> S (S (S (S O)))

(** val is_all : kind -> bool **)

let is_all = function
| KAll (_, _) -> true
| _ -> false

(** val star2 : str **)

let star2 =
  c_star :: (c_star :: [])

(** val s_capture : str **)

let s_capture =
  (Npos (Coq_xI (Coq_xI (Coq_xO (Coq_xO (Coq_xO (Coq_xI
    Coq_xH))))))) :: ((Npos (Coq_xI (Coq_xO (Coq_xO (Coq_xO (Coq_xO (Coq_xI
    Coq_xH))))))) :: ((Npos (Coq_xO (Coq_xO (Coq_xO (Coq_xO (Coq_xI (Coq_xI
    Coq_xH))))))) :: ((Npos (Coq_xO (Coq_xO (Coq_xI (Coq_xO (Coq_xI (Coq_xI
    Coq_xH))))))) :: ((Npos (Coq_xI (Coq_xO (Coq_xI (Coq_xO (Coq_xI (Coq_xI
    Coq_xH))))))) :: ((Npos (Coq_xO (Coq_xI (Coq_xO (Coq_xO (Coq_xI (Coq_xI
    Coq_xH))))))) :: ((Npos (Coq_xI (Coq_xO (Coq_xI (Coq_xO (Coq_xO (Coq_xI
    Coq_xH))))))) :: []))))))

(** val is_digit : coq_N -> bool **)

let is_digit c =
  (&&) (N.leb (Npos (Coq_xO (Coq_xO (Coq_xO (Coq_xO (Coq_xI Coq_xH)))))) c)
    (N.leb c (Npos (Coq_xI (Coq_xO (Coq_xO (Coq_xI (Coq_xI Coq_xH)))))))

(** val digits_val : coq_Z -> str -> coq_Z option **)

let rec digits_val acc = function
| [] -> Some acc
| c :: s' ->
  if is_digit c
  then digits_val
         (Z.add (Z.mul acc (Zpos (Coq_xO (Coq_xI (Coq_xO Coq_xH)))))
           (Z.of_N
             (N.sub c (Npos (Coq_xO (Coq_xO (Coq_xO (Coq_xO (Coq_xI
               Coq_xH))))))))) s'
  else None

(** val atoi : str -> coq_Z **)

let atoi s = match s with
| [] -> Z0
| n :: l ->
  (match n with
   | N0 -> (match digits_val Z0 s with
            | Some v -> v
            | None -> Z0)
   | Npos p ->
     (match p with
      | Coq_xI p0 ->
        (match p0 with
         | Coq_xI p1 ->
           (match p1 with
            | Coq_xO p2 ->
              (match p2 with
               | Coq_xI p3 ->
                 (match p3 with
                  | Coq_xO p4 ->
                    (match p4 with
                     | Coq_xH ->
                       (match l with
                        | [] ->
                          (match digits_val Z0 s with
                           | Some v -> v
                           | None -> Z0)
                        | d :: s' ->
                          (match digits_val Z0 (d :: s') with
                           | Some v -> v
                           | None -> Z0))
                     | _ ->
                       (match digits_val Z0 s with
                        | Some v -> v
                        | None -> Z0))
                  | _ -> (match digits_val Z0 s with
                          | Some v -> v
                          | None -> Z0))
               | _ -> (match digits_val Z0 s with
                       | Some v -> v
                       | None -> Z0))
            | _ -> (match digits_val Z0 s with
                    | Some v -> v
                    | None -> Z0))
         | Coq_xO p1 ->
           (match p1 with
            | Coq_xI p2 ->
              (match p2 with
               | Coq_xI p3 ->
                 (match p3 with
                  | Coq_xO p4 ->
                    (match p4 with
                     | Coq_xH ->
                       (match l with
                        | [] ->
                          (match digits_val Z0 s with
                           | Some v -> v
                           | None -> Z0)
                        | d :: s' ->
                          (match digits_val Z0 (d :: s') with
                           | Some v -> Z.opp v
                           | None -> Z0))
                     | _ ->
                       (match digits_val Z0 s with
                        | Some v -> v
                        | None -> Z0))
                  | _ -> (match digits_val Z0 s with
                          | Some v -> v
                          | None -> Z0))
               | _ -> (match digits_val Z0 s with
                       | Some v -> v
                       | None -> Z0))
            | _ -> (match digits_val Z0 s with
                    | Some v -> v
                    | None -> Z0))
         | Coq_xH -> (match digits_val Z0 s with
                      | Some v -> v
                      | None -> Z0))
      | _ -> (match digits_val Z0 s with
              | Some v -> v
              | None -> Z0)))

(** val any_plus : re **)

let any_plus =
  plus (Chr CAny)

(** val params_pieces :
    (str -> re option) -> (str * pval) list -> piece list option **)

let rec params_pieces compile = function
| [] -> Some []
| p :: ps' ->
  let (n, p0) = p in
  (match p0 with
   | VLit _ -> None
   | VRegex src ->
     (match compile src with
      | Some r ->
        (match params_pieces compile ps' with
         | Some l -> Some ((PBind (n, r)) :: l)
         | None -> None)
      | None -> None))

(** val regex_pieces :
    (str -> re option) -> elem list -> piece list option **)

let rec regex_pieces compile = function
| [] -> Some []
| e :: es' ->
  (match e with
   | EIdent s ->
     (match regex_pieces compile es' with
      | Some l -> Some ((PLit s) :: l)
      | None -> None)
   | EBind b ->
     (match regex_pieces compile es' with
      | Some l -> Some ((PBind (b, any_plus)) :: l)
      | None -> None)
   | EParams ps ->
     (match params_pieces compile ps with
      | Some l1 ->
        (match regex_pieces compile es' with
         | Some l2 -> Some (app l1 l2)
         | None -> None)
      | None -> None))

(** val piece_binds : piece list -> str list **)

let piece_binds ps =
  flat_map (fun p -> match p with
                     | PLit _ -> []
                     | PBind (n, _) -> n :: []) ps

(** val kind_binds : kind -> str list **)

let kind_binds = function
| KStatic _ -> []
| KRegex ps -> piece_binds ps
| KPlace b -> b :: []
| KAll (b, _) -> b :: []

(** val match_all_of : elem list -> (str * coq_Z) option **)

let match_all_of = function
| [] -> None
| e :: l ->
  (match e with
   | EIdent _ -> None
   | EBind b ->
     (match l with
      | [] -> if str_eqb b star2 then Some (star2, Z0) else None
      | _ :: _ -> None)
   | EParams ps ->
     (match ps with
      | [] -> None
      | p :: rest ->
        let (b, p0) = p in
        (match p0 with
         | VLit v ->
           (match l with
            | [] ->
              if str_eqb v star2
              then Some (b,
                     (match rest with
                      | [] -> Z0
                      | p1 :: _ ->
                        let (c, p2) = p1 in
                        (match p2 with
                         | VLit cv ->
                           if str_eqb c s_capture then atoi cv else Z0
                         | VRegex _ -> Z0)))
              else None
            | _ :: _ -> None)
         | VRegex _ -> None)))

(** val mem_str : str -> str list -> bool **)

let rec mem_str x = function
| [] -> false
| y :: l' -> (||) (str_eqb x y) (mem_str x l')

(** val nodup_str : str list -> bool **)

let rec nodup_str = function
| [] -> true
| x :: l' -> (&&) (negb (mem_str x l')) (nodup_str l')

(** val disjoint_str : str list -> str list -> bool **)

let rec disjoint_str a b =
  match a with
  | [] -> true
  | x :: a' -> (&&) (negb (mem_str x b)) (disjoint_str a' b)

(** val classify :
    (str -> re option) -> bool -> str list -> bool -> elem list -> kind option **)

let classify compile as_leaf anc anc_all es = match es with
| [] -> if as_leaf then Some (KStatic []) else None
| e :: l ->
  (match e with
   | EIdent s ->
     (match l with
      | [] -> Some (KStatic s)
      | _ :: _ ->
        (match es with
         | [] ->
           (match match_all_of [] with
            | Some p ->
              let (b, cap) = p in
              if mem_str b anc
              then None
              else if (&&) (negb as_leaf) anc_all
                   then None
                   else Some (KAll (b, cap))
            | None ->
              (match regex_pieces compile es with
               | Some ps ->
                 let bs = piece_binds ps in
                 if (&&) (disjoint_str bs anc) (nodup_str bs)
                 then Some (KRegex ps)
                 else None
               | None -> None))
         | e0 :: l0 ->
           (match e0 with
            | EBind b ->
              (match l0 with
               | [] ->
                 (match match_all_of ((EBind b) :: []) with
                  | Some p ->
                    let (b0, cap) = p in
                    if mem_str b0 anc
                    then None
                    else if (&&) (negb as_leaf) anc_all
                         then None
                         else Some (KAll (b0, cap))
                  | None -> if mem_str b anc then None else Some (KPlace b))
               | e1 :: l1 ->
                 (match match_all_of ((EBind b) :: (e1 :: l1)) with
                  | Some p ->
                    let (b0, cap) = p in
                    if mem_str b0 anc
                    then None
                    else if (&&) (negb as_leaf) anc_all
                         then None
                         else Some (KAll (b0, cap))
                  | None ->
                    (match regex_pieces compile es with
                     | Some ps ->
                       let bs = piece_binds ps in
                       if (&&) (disjoint_str bs anc) (nodup_str bs)
                       then Some (KRegex ps)
                       else None
                     | None -> None)))
            | x ->
              (match match_all_of (x :: l0) with
               | Some p ->
                 let (b, cap) = p in
                 if mem_str b anc
                 then None
                 else if (&&) (negb as_leaf) anc_all
                      then None
                      else Some (KAll (b, cap))
               | None ->
                 (match regex_pieces compile es with
                  | Some ps ->
                    let bs = piece_binds ps in
                    if (&&) (disjoint_str bs anc) (nodup_str bs)
                    then Some (KRegex ps)
                    else None
                  | None -> None)))))
   | _ ->
     (match es with
      | [] ->
        (match match_all_of [] with
         | Some p ->
           let (b, cap) = p in
           if mem_str b anc
           then None
           else if (&&) (negb as_leaf) anc_all
                then None
                else Some (KAll (b, cap))
         | None ->
           (match regex_pieces compile es with
            | Some ps ->
              let bs = piece_binds ps in
              if (&&) (disjoint_str bs anc) (nodup_str bs)
              then Some (KRegex ps)
              else None
            | None -> None))
      | e0 :: l0 ->
        (match e0 with
         | EBind b ->
           (match l0 with
            | [] ->
              (match match_all_of ((EBind b) :: []) with
               | Some p ->
                 let (b0, cap) = p in
                 if mem_str b0 anc
                 then None
                 else if (&&) (negb as_leaf) anc_all
                      then None
                      else Some (KAll (b0, cap))
               | None -> if mem_str b anc then None else Some (KPlace b))
            | e1 :: l1 ->
              (match match_all_of ((EBind b) :: (e1 :: l1)) with
               | Some p ->
                 let (b0, cap) = p in
                 if mem_str b0 anc
                 then None
                 else if (&&) (negb as_leaf) anc_all
                      then None
                      else Some (KAll (b0, cap))
               | None ->
                 (match regex_pieces compile es with
                  | Some ps ->
                    let bs = piece_binds ps in
                    if (&&) (disjoint_str bs anc) (nodup_str bs)
                    then Some (KRegex ps)
                    else None
                  | None -> None)))
         | x ->
           (match match_all_of (x :: l0) with
            | Some p ->
              let (b, cap) = p in
              if mem_str b anc
              then None
              else if (&&) (negb as_leaf) anc_all
                   then None
                   else Some (KAll (b, cap))
            | None ->
              (match regex_pieces compile es with
               | Some ps ->
                 let bs = piece_binds ps in
                 if (&&) (disjoint_str bs anc) (nodup_str bs)
                 then Some (KRegex ps)
                 else None
               | None -> None)))))

type leaf = { ltext : str; lkind : kind; lroute : nat }

type tree =
| Node of ((str * kind) * tree) list * leaf list

(** val empty : tree **)

let empty =
  Node ([], [])

(** val ins_leaf : leaf -> leaf list -> leaf list **)

let rec ins_leaf x l = match l with
| [] -> x :: []
| y :: l' ->
  if Nat.ltb (rank x.lkind) (rank y.lkind)
  then x :: l
  else y :: (ins_leaf x l')

(** val ins_sub :
    ((str * kind) * tree) -> ((str * kind) * tree) list ->
    ((str * kind) * tree) list **)

let rec ins_sub x l = match l with
| [] -> x :: []
| y :: l' ->
  if Nat.ltb (rank (snd (fst x))) (rank (snd (fst y)))
  then x :: l
  else y :: (ins_sub x l')

(** val has_all_leaf : leaf list -> bool **)

let has_all_leaf l =
  match rev l with
  | [] -> false
  | x :: _ -> is_all x.lkind

(** val has_all_sub : ((str * kind) * tree) list -> bool **)

let has_all_sub l =
  match rev l with
  | [] -> false
  | x :: _ -> is_all (snd (fst x))

(** val seg_key : segment -> str **)

let seg_key s =
  render_segment { optional = false; elems = s.elems }

(** val add_leaf :
    (str -> re option) -> str list -> leaf list -> segment -> nat -> leaf
    list option **)

let add_leaf compile anc ls s rid =
  let text = seg_key s in
  if existsb (fun l -> str_eqb l.ltext text) ls
  then None
  else (match classify compile true anc false s.elems with
        | Some k ->
          if (&&) (is_all k) (has_all_leaf ls)
          then None
          else Some (ins_leaf { ltext = text; lkind = k; lroute = rid } ls)
        | None -> None)

(** val add_segs :
    (str -> re option) -> nat -> bool -> tree -> str list -> bool -> segment
    list -> nat -> tree option **)

let rec add_segs compile fuel root t anc anc_all segs rid =
  match fuel with
  | O -> None
  | S fuel' ->
    let Node (sb, ls) = t in
    (match segs with
     | [] -> None
     | s :: rest ->
       (match rest with
        | [] ->
          if (&&) s.optional root
          then (match add_leaf compile anc ls { optional = false; elems =
                        [] } rid with
                | Some ls1 ->
                  (match add_leaf compile anc ls1 s rid with
                   | Some ls2 -> Some (Node (sb, ls2))
                   | None -> None)
                | None -> None)
          else (match add_leaf compile anc ls s rid with
                | Some ls' -> Some (Node (sb, ls'))
                | None -> None)
        | s2 :: rest2 ->
          if s.optional
          then None
          else let text = render_segment s in
               let last_opt =
                 match rest2 with
                 | [] -> s2.optional
                 | _ :: _ -> false
               in
               let with_short = fun ls0 ->
                 if last_opt then add_leaf compile anc ls0 s rid else Some ls0
               in
               (match find (fun e -> str_eqb (fst (fst e)) text) sb with
                | Some p ->
                  let (p0, st) = p in
                  let (_, k) = p0 in
                  (match add_segs compile fuel' false st
                           (app (kind_binds k) anc) ((||) anc_all (is_all k))
                           rest rid with
                   | Some st' ->
                     (match with_short ls with
                      | Some ls' ->
                        Some (Node
                          ((map (fun e ->
                             if str_eqb (fst (fst e)) text
                             then ((text, k), st')
                             else e) sb), ls'))
                      | None -> None)
                   | None -> None)
                | None ->
                  (match classify compile false anc anc_all s.elems with
                   | Some k ->
                     if (&&) (is_all k) (has_all_sub sb)
                     then None
                     else (match add_segs compile fuel' false empty
                                   (app (kind_binds k) anc)
                                   ((||) anc_all (is_all k)) rest rid with
                           | Some st' ->
                             (match with_short ls with
                              | Some ls' ->
                                Some (Node ((ins_sub ((text, k), st') sb),
                                  ls'))
                              | None -> None)
                           | None -> None)
                   | None -> None))))

(** val add_route :
    (str -> re option) -> tree -> route -> nat -> tree option **)

let add_route compile t r rid =
  add_segs compile (S (length r)) true t [] false r rid

type params = (str * str) list

(** val c_slash_s : str **)

let c_slash_s =
  c_slash :: []

(** val join_slash : str list -> str **)

let rec join_slash = function
| [] -> []
| x :: l' ->
  (match l' with
   | [] -> x
   | _ :: _ -> app x (app c_slash_s (join_slash l')))

(** val seg_re : piece list -> nat -> re **)

let rec seg_re ps i =
  match ps with
  | [] -> Eps
  | p :: ps' ->
    (match p with
     | PLit l -> Cat ((lit_re l), (seg_re ps' i))
     | PBind (_, r) -> Cat ((Grp (i, r)), (seg_re ps' (S i))))

(** val bind_values : piece list -> nat -> caps -> params **)

let rec bind_values ps i c =
  match ps with
  | [] -> []
  | p :: ps' ->
    (match p with
     | PLit _ -> bind_values ps' i c
     | PBind (n, _) ->
       (n,
         (match lookup i c with
          | Some v -> v
          | None -> [])) :: (bind_values ps' (S i) c))

(** val seg_match : kind -> str -> params option **)

let seg_match k s =
  match k with
  | KStatic lit -> if str_eqb lit s then Some [] else None
  | KRegex ps ->
    (match full (seg_re ps O) s with
     | Some c -> Some (bind_values ps O c)
     | None -> None)
  | KPlace b -> Some ((b, s) :: [])
  | KAll (b, _) -> Some ((b, s) :: [])

(** val cap_ok : coq_Z -> nat -> bool **)

let cap_ok cap taken =
  (||) (Z.leb cap Z0) (Z.leb (Z.of_nat taken) cap)

(** val first_leaf :
    (nat -> bool) -> leaf list -> str -> (nat * params) option **)

let rec first_leaf hdr_ok ls s =
  match ls with
  | [] -> None
  | l :: ls' ->
    (match seg_match l.lkind s with
     | Some ps ->
       if hdr_ok l.lroute
       then Some (l.lroute, ps)
       else first_leaf hdr_ok ls' s
     | None -> first_leaf hdr_ok ls' s)

(** val all_leaf_fallback :
    (nat -> bool) -> leaf list -> str list -> (nat * params) option **)

let all_leaf_fallback hdr_ok ls segs =
  match rev ls with
  | [] -> None
  | l :: _ ->
    (match l.lkind with
     | KAll (b, cap) ->
       if (&&) (cap_ok cap (length segs)) (hdr_ok l.lroute)
       then Some (l.lroute, ((b, (join_slash segs)) :: []))
       else None
     | _ -> None)

(** val grow :
    (str list -> (nat * params) option) -> str -> coq_Z -> nat -> str list ->
    str list -> (nat * params) option **)

let rec grow mt b cap fuel taken r =
  match fuel with
  | O -> None
  | S fuel' ->
    if cap_ok cap (length taken)
    then (match mt r with
          | Some p ->
            let (id, ps) = p in
            Some (id, (app ps ((b, (join_slash taken)) :: [])))
          | None ->
            (match r with
             | [] -> None
             | x :: r' ->
               (match r' with
                | [] -> None
                | _ :: _ -> grow mt b cap fuel' (app taken (x :: [])) r')))
    else None

(** val mtree : (nat -> bool) -> tree -> str list -> (nat * params) option **)

let rec mtree hdr_ok t segs =
  let Node (subs, leaves) = t in
  (match segs with
   | [] -> None
   | s :: rest ->
     (match rest with
      | [] -> first_leaf hdr_ok leaves s
      | _ :: _ ->
        let rec go = function
        | [] -> all_leaf_fallback hdr_ok leaves segs
        | p :: l' ->
          let (p0, st) = p in
          let (_, k) = p0 in
          (match k with
           | KAll (b, cap) ->
             (match grow (mtree hdr_ok st) b cap (length rest) (s :: []) rest with
              | Some x -> Some x
              | None -> all_leaf_fallback hdr_ok leaves segs)
           | _ ->
             (match seg_match k s with
              | Some ps ->
                (match mtree hdr_ok st rest with
                 | Some p1 -> let (id, ps') = p1 in Some (id, (app ps' ps))
                 | None -> go l')
              | None -> go l'))
        in go subs))
