open Base
open BinInt
open BinNat
open BinNums
open Datatypes
open List
open PeanoNat
open Regex
open Route

type piece =
| PLit of str
| PBind of str * re

type kind =
| KStatic of str
| KRegex of piece list
| KPlace of str
| KAll of str * coq_Z

val rank : kind -> nat

val is_all : kind -> bool

val star2 : str

val s_capture : str

val is_digit : coq_N -> bool

val digits_val : coq_Z -> str -> coq_Z option

val atoi : str -> coq_Z

val any_plus : re

val params_pieces :
  (str -> re option) -> (str * pval) list -> piece list option

val regex_pieces : (str -> re option) -> elem list -> piece list option

val piece_binds : piece list -> str list

val kind_binds : kind -> str list

val match_all_of : elem list -> (str * coq_Z) option

val mem_str : str -> str list -> bool

val nodup_str : str list -> bool

val disjoint_str : str list -> str list -> bool

val classify :
  (str -> re option) -> bool -> str list -> bool -> elem list -> kind option

type leaf = { ltext : str; lkind : kind; lroute : nat }

type tree =
| Node of ((str * kind) * tree) list * leaf list

val empty : tree

val ins_leaf : leaf -> leaf list -> leaf list

val ins_sub :
  ((str * kind) * tree) -> ((str * kind) * tree) list ->
  ((str * kind) * tree) list

val has_all_leaf : leaf list -> bool

val has_all_sub : ((str * kind) * tree) list -> bool

val seg_key : segment -> str

val add_leaf :
  (str -> re option) -> str list -> leaf list -> segment -> nat -> leaf list
  option

val add_segs :
  (str -> re option) -> nat -> bool -> tree -> str list -> bool -> segment
  list -> nat -> tree option

val add_route : (str -> re option) -> tree -> route -> nat -> tree option

type params = (str * str) list

val c_slash_s : str

val join_slash : str list -> str

val seg_re : piece list -> nat -> re

val bind_values : piece list -> nat -> caps -> params

val seg_match : kind -> str -> params option

val cap_ok : coq_Z -> nat -> bool

val first_leaf : (nat -> bool) -> leaf list -> str -> (nat * params) option

val all_leaf_fallback :
  (nat -> bool) -> leaf list -> str list -> (nat * params) option

val grow :
  (str list -> (nat * params) option) -> str -> coq_Z -> nat -> str list ->
  str list -> (nat * params) option

val mtree : (nat -> bool) -> tree -> str list -> (nat * params) option
