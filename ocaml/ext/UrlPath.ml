open Base
open BinNat
open BinNums
open Datatypes
open List
open Route

type skel =
| SLit of str
| SHole of str

(** val is_regex_val : pval -> bool **)

let is_regex_val = function
| VLit _ -> false
| VRegex _ -> true

(** val param_holes : bool -> (str * pval) list -> skel list **)

let rec param_holes first = function
| [] -> []
| p :: ps' ->
  let (n, v) = p in
  app (if (||) first (is_regex_val v) then (SHole n) :: [] else [])
    (param_holes false ps')

(** val elem_skel : elem -> skel list **)

let elem_skel = function
| EIdent s -> (SLit s) :: []
| EBind b -> (SHole b) :: []
| EParams ps -> param_holes true ps

(** val route_skel : route -> bool -> skel list **)

let rec route_skel r with_opt =
  match r with
  | [] -> []
  | s :: r' ->
    if (&&) s.optional (negb with_opt)
    then []
    else (SLit
           (c_slash :: [])) :: (app (flat_map elem_skel s.elems)
                                 (route_skel r' with_opt))

(** val render_skel1 : skel -> str **)

let render_skel1 = function
| SLit s -> s
| SHole n -> app (c_lbrace :: []) (app n (c_rbrace :: []))

(** val render_skel : skel list -> str **)

let render_skel sk =
  concat (map render_skel1 sk)

(** val is_prefix : str -> str -> bool **)

let rec is_prefix p s =
  match p with
  | [] -> true
  | x :: p' ->
    (match s with
     | [] -> false
     | y :: s' -> (&&) (N.eqb x y) (is_prefix p' s'))

(** val find_pair : (str * str) list -> str -> (str * str) option **)

let find_pair pairs s =
  find (fun p -> is_prefix (fst p) s) pairs

(** val rep : (str * str) list -> nat -> str -> str **)

let rec rep pairs skip s = match s with
| [] -> []
| c :: s' ->
  (match skip with
   | O ->
     (match find_pair pairs s with
      | Some p ->
        let (k, v) = p in
        (match k with
         | [] -> c :: (rep pairs O s')
         | _ :: k' -> app v (rep pairs (length k') s'))
      | None -> c :: (rep pairs O s'))
   | S k -> rep pairs k s')

(** val replace : (str * str) list -> str -> str **)

let replace pairs s =
  rep pairs O s

(** val brace : str -> str **)

let brace n =
  app (c_lbrace :: []) (app n (c_rbrace :: []))

(** val route_skel' : route -> bool -> skel list **)

let route_skel' r with_opt =
  match route_skel r with_opt with
  | [] -> (SLit (c_slash :: [])) :: []
  | s :: l -> s :: l

(** val url_path : route -> (str * str) list -> bool -> str **)

let url_path r vals with_opt =
  replace (map (fun p -> ((brace (fst p)), (snd p))) vals)
    (render_skel (route_skel' r with_opt))

(** val lookup_val : (str * str) list -> str -> str option **)

let lookup_val vals n =
  match find (fun p -> str_eqb (fst p) n) vals with
  | Some p -> Some (snd p)
  | None -> None

(** val fill1 : (str * str) list -> skel -> str **)

let fill1 vals = function
| SLit s -> s
| SHole n -> (match lookup_val vals n with
              | Some v -> v
              | None -> brace n)

(** val fill : (str * str) list -> skel list -> str **)

let fill vals sk =
  concat (map (fill1 vals) sk)

(** val brace_free : str -> bool **)

let brace_free s =
  forallb (fun c -> (&&) (negb (N.eqb c c_lbrace)) (negb (N.eqb c c_rbrace)))
    s

(** val skel_ok : skel list -> bool **)

let skel_ok sk =
  forallb (fun k ->
    match k with
    | SLit s -> brace_free s
    | SHole n -> brace_free n) sk

(** val s_with_optional : str **)

let s_with_optional =
  (Npos (Coq_xI (Coq_xI (Coq_xI (Coq_xO (Coq_xI (Coq_xI
    Coq_xH))))))) :: ((Npos (Coq_xI (Coq_xO (Coq_xO (Coq_xI (Coq_xO (Coq_xI
    Coq_xH))))))) :: ((Npos (Coq_xO (Coq_xO (Coq_xI (Coq_xO (Coq_xI (Coq_xI
    Coq_xH))))))) :: ((Npos (Coq_xO (Coq_xO (Coq_xO (Coq_xI (Coq_xO (Coq_xI
    Coq_xH))))))) :: ((Npos (Coq_xI (Coq_xI (Coq_xI (Coq_xI (Coq_xO (Coq_xO
    Coq_xH))))))) :: ((Npos (Coq_xO (Coq_xO (Coq_xO (Coq_xO (Coq_xI (Coq_xI
    Coq_xH))))))) :: ((Npos (Coq_xO (Coq_xO (Coq_xI (Coq_xO (Coq_xI (Coq_xI
    Coq_xH))))))) :: ((Npos (Coq_xI (Coq_xO (Coq_xO (Coq_xI (Coq_xO (Coq_xI
    Coq_xH))))))) :: ((Npos (Coq_xI (Coq_xI (Coq_xI (Coq_xI (Coq_xO (Coq_xI
    Coq_xH))))))) :: ((Npos (Coq_xO (Coq_xI (Coq_xI (Coq_xI (Coq_xO (Coq_xI
    Coq_xH))))))) :: ((Npos (Coq_xI (Coq_xO (Coq_xO (Coq_xO (Coq_xO (Coq_xI
    Coq_xH))))))) :: ((Npos (Coq_xO (Coq_xO (Coq_xI (Coq_xI (Coq_xO (Coq_xI
    Coq_xH))))))) :: [])))))))))))

(** val s_true : str **)

let s_true =
  (Npos (Coq_xO (Coq_xO (Coq_xI (Coq_xO (Coq_xI (Coq_xI
    Coq_xH))))))) :: ((Npos (Coq_xO (Coq_xI (Coq_xO (Coq_xO (Coq_xI (Coq_xI
    Coq_xH))))))) :: ((Npos (Coq_xI (Coq_xO (Coq_xI (Coq_xO (Coq_xI (Coq_xI
    Coq_xH))))))) :: ((Npos (Coq_xI (Coq_xO (Coq_xI (Coq_xO (Coq_xO (Coq_xI
    Coq_xH))))))) :: [])))

(** val pairs_to_map : str list -> (str * str) list -> (str * str) list **)

let rec pairs_to_map pairs acc =
  match pairs with
  | [] -> acc
  | k :: l ->
    (match l with
     | [] -> acc
     | v :: rest ->
       pairs_to_map rest ((k,
         v) :: (filter (fun p -> negb (str_eqb (fst p) k)) acc)))

(** val router_url_path : route -> str list -> str **)

let router_url_path r pairs =
  let vals = pairs_to_map pairs [] in
  let wo =
    match lookup_val vals s_with_optional with
    | Some v -> str_eqb v s_true
    | None -> false
  in
  let vals' =
    if wo
    then filter (fun p -> negb (str_eqb (fst p) s_with_optional)) vals
    else vals
  in
  url_path r vals' wo
