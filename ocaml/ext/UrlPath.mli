open Base
open BinNat
open BinNums
open Datatypes
open List
open Route

type skel =
| SLit of str
| SHole of str

val is_regex_val : pval -> bool

val param_holes : bool -> (str * pval) list -> skel list

val elem_skel : elem -> skel list

val route_skel : route -> bool -> skel list

val render_skel1 : skel -> str

val render_skel : skel list -> str

val is_prefix : str -> str -> bool

val find_pair : (str * str) list -> str -> (str * str) option

val rep : (str * str) list -> nat -> str -> str

val replace : (str * str) list -> str -> str

val brace : str -> str

val route_skel' : route -> bool -> skel list

val url_path : route -> (str * str) list -> bool -> str

val lookup_val : (str * str) list -> str -> str option

val fill1 : (str * str) list -> skel -> str

val fill : (str * str) list -> skel list -> str

val brace_free : str -> bool

val skel_ok : skel list -> bool

val s_with_optional : str

val s_true : str

val pairs_to_map : str list -> (str * str) list -> (str * str) list

val router_url_path : route -> str list -> str
