module List = Stdlib.List
open Conv
open BinNums
open Escape

let eval (input : Sx.t) (obs : Sx.t) : Sx.t list * bool * bool * string =
  let arg name = List.hd (Sx.args (Sx.field name input)) in
  let q = (match arg "q" with Sx.A "absent" -> [] | x -> str x) in
  let p = Router.decode1 (str (arg "p")) in
  let c = str (arg "c") in
  let opt f x = (match x with Sx.A "none" -> None | y -> Some (f y)) in
  let dstr = opt str (arg "dstr") and dint = opt (fun x -> z_of_int (Sx.int_of x)) (arg "dint") and dbool = opt bool_of (arg "dbool") in
  let t name l = Sx.L (Sx.A name :: l) in
  let model = [
    t "query" [sx_str (query q dstr)];
    t "trim" [sx_str (query_trim q dstr)];
    t "unescape" [sx_str (query_unescape_acc q dstr)];
    t "bool" [sx_bool (query_bool q dbool)];
    t "int" [sx_z (query_int q dint)];
    t "int64" [sx_z (query_int q dint)];
    t "float" [sx_bool true];            (* judged by the harness against strconv.ParseFloat (oracle) *)
    t "absent" [sx_str (query [] dstr); sx_z (query_int [] dint); sx_bool (query_bool [] dbool);
                sx_str (query_trim [] dstr); sx_str (query_unescape_acc [] dstr); sx_z (query_int [] dint)];
    t "param" [sx_str p];
    t "paramint" [sx_z (parse_int p)];
    t "paramint64" [sx_z (parse_int p)];
    t "noparam" [sx_str []; sx_z (parse_int [])];
    t "nocookie" [sx_str []] ]
    @ (match Sx.field_opt "q2" input with
       | Some x -> let q2 = str (List.hd (Sx.args x)) in   (* the query rewritten while the request is served *)
           [t "requery" [sx_str (query q2 dstr); sx_str (query_trim q2 dstr); sx_z (query_int q2 dint); sx_bool (query_bool q2 dbool)]]
       | None -> [])
    @ (match Sx.field_opt "raw" input with
       | Some x -> (match Sx.args x with
           | raw :: name :: _ -> let v = Query.query_get (str raw) (str name) in   (* net/url.ParseQuery, first value of the name *)
               let dl = (match dstr with Some d -> Some [d; d] | None -> None) in
               [t "raw" [sx_str (query v dstr); sx_z (query_int v dint); sx_str (query_trim v dstr)];
                t "rawl" (List.map sx_str (Query.query_strings (str raw) (str name) dl))]
           | _ -> failwith "raw")
       | None -> [])
    @ [ t "cookie" [sx_str (cookie_roundtrip c)] ] in
  (* the property on the implementation's own answers: no panic; the cookie comes back byte for byte;
     an absent value yields the caller's default unchanged, or the zero value *)
  let spec = (match Sx.args obs with
    | [Sx.L [Sx.A "panic"]] -> false
    | l -> (try
        List.assoc "cookie" (List.map (fun x -> (Sx.tag x, Sx.args x)) l) = [sx_str c] &&
        List.assoc "absent" (List.map (fun x -> (Sx.tag x, Sx.args x)) l) =
          (let ds = sx_str (match dstr with Some d -> d | None -> []) and di = sx_z (match dint with Some d -> d | None -> Z0) in
           [ds; di; sx_bool (match dbool with Some d -> d | None -> false); ds; ds; di])
        (* ... and a present value is returned converted by the base-10 / boolean rule, zero on
           malformed text: Escape.parse_int / query_int / query_bool are that rule (theorems C18_default_rule_present and _absent) *)
        && List.for_all (fun m -> let tag = Sx.tag m in
             not (List.mem tag ["query"; "trim"; "unescape"; "bool"; "int"; "int64"; "float"; "param"; "paramint"; "paramint64"; "noparam"; "nocookie"; "requery"; "raw"; "rawl"])
             || List.assoc tag (List.map (fun x -> (Sx.tag x, Sx.args x)) l) = Sx.args m) model
      with Not_found -> false)) in
  let odd = List.exists (fun ch -> let x = int_of_n ch in x < 32 || x > 126 || x = 59 || x = 44 || x = 34 || x = 92 || x = 32 || x = 37 || x = 43) c in
  (model, spec, odd, if q = [] then "query-empty-or-absent" else "query-present")
