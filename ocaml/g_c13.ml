module List = Stdlib.List
open Conv
open RW

let op_of (flusher : bool) (x : Sx.t) : op =
  match Sx.tag x, Sx.args x with
  | "wh", [c] -> OWriteHeader (z_of_int (Sx.int_of c))
  | "w", [bs; acc] -> OWrite (str bs, n_of_int (Sx.int_of acc))
  | "ws", [bs; acc] -> OWrite (str bs, n_of_int (Sx.int_of acc))   (* io.WriteString is a Write *)
  | "cp", [bs; acc] -> OWrite (str bs, n_of_int (Sx.int_of acc))   (* io.Copy of a short reader is one Write *)
  | "fl", [] -> OFlush flusher
  | "bf", [id] -> OBefore (nat_of_int (Sx.int_of id), false)
  | "bfp", [id] -> OBefore (nat_of_int (Sx.int_of id), true)
  | "st", [] -> OStatus
  | "sz", [] -> OSize
  | "wr", [] -> OWritten
  | _ -> failwith ("c13 op: " ^ Sx.show x)

let ev_of (x : Sx.t) : ev =
  match Sx.tag x, Sx.args x with
  | "uwh", [c] -> UWriteHeader (z_of_int (Sx.int_of c))
  | "uw", [bs; n] -> UWrite (str bs, n_of_int (Sx.int_of n))
  | "ufl", [] -> UFlush
  | "hk", [id; seen] -> EHook (nat_of_int (Sx.int_of id), z_of_int (Sx.int_of seen))
  | "ast", [z] -> AStatus (z_of_int (Sx.int_of z))
  | "asz", [n] -> ASize (n_of_int (Sx.int_of n))
  | "awr", [b] -> AWritten (bool_of b)
  | "pan", [] -> EPanic
  | _ -> failwith ("c13 ev: " ^ Sx.show x)

let sx_ev : ev -> Sx.t = function
  | UWriteHeader c -> Sx.L [Sx.A "uwh"; sx_int (int_of_z c)]
  | UWrite (bs, n) -> Sx.L [Sx.A "uw"; sx_str bs; sx_int (int_of_n n)]
  | UFlush -> Sx.L [Sx.A "ufl"]
  | EHook (i, z) -> Sx.L [Sx.A "hk"; sx_int (int_of_nat i); sx_int (int_of_z z)]
  | AStatus z -> Sx.L [Sx.A "ast"; sx_int (int_of_z z)]
  | ASize n -> Sx.L [Sx.A "asz"; sx_int (int_of_n n)]
  | AWritten b -> Sx.L [Sx.A "awr"; sx_bool b]
  | EPanic -> Sx.L [Sx.A "pan"]

(* returns (model output, spec verdict on observed, nontrivial, class) *)
let eval (input : Sx.t) (obs : Sx.t) : Sx.t list * bool * bool * string =
  let head = bool_of (List.hd (Sx.args (Sx.field "head" input))) in
  let plain = (match Sx.field_opt "plain" input with Some p -> bool_of (List.hd (Sx.args p)) | None -> false) in
  let expand x = (match Sx.tag x, Sx.args x with
    | "cwh", [c1; c2] -> [Sx.L [Sx.A "wh"; c1]; Sx.L [Sx.A "wh"; c2]]   (* two callers at once answer like one after the other *)
    | _ -> [x]) in
  let ops = List.map (op_of (not plain)) (List.concat_map expand (Sx.args (Sx.field "ops" input))) in
  let outs = List.map (fun o -> List.map ev_of (Sx.list o)) (Sx.args (Sx.field "outs" obs)) in
  match Sx.field_opt "outer" input with
  | Some outer ->
      (* a writer over a writer: W1 = NewResponseWriter(m1, spy) lives through the outer ops, then
         W2 = NewResponseWriter(m2, W1) gets the ops (RWStack.v) *)
      let head1 = bool_of (List.hd (Sx.args (Sx.field "head" outer))) in
      let pre = List.map (op_of (not plain)) (Sx.args (Sx.field "ops" outer)) in
      let pre_outs = List.map (fun o -> List.map ev_of (Sx.list o)) (Sx.args (Sx.field "pre" obs)) in
      let sx_outs tag l = Sx.L (Sx.A tag :: List.map (fun es -> Sx.L (List.map sx_ev es)) l) in
      let m = RWStack.stack_run head1 head pre ops in
      (* the lower writer's own answers after all that: by stack_spy it has received exactly the lowered calls *)
      let low_m = (match List.rev (run head1 (pre @ RWStack.lower_ops head1 head init ops @ [OStatus; OWritten; OSize])) with
        | [ASize z] :: [AWritten b] :: [AStatus c] :: _ -> Sx.L [Sx.A "low"; sx_int (int_of_z c); sx_bool b; sx_int (int_of_n z)]
        | _ -> failwith "low") in
      let sx_m = [sx_outs "outs" m; sx_outs "pre" (run head1 pre); low_m] in
      (* the property, read off the observation: over the whole life of the stack the spy gets at most one status
         line and gets it before any body byte or flush; W2 answers like a fresh writer of its own *)
      let all = List.concat pre_outs @ List.concat outs in
      let nwh = List.length (List.filter (function UWriteHeader _ -> true | _ -> false) all) in
      let rec first seen = function
        | [] -> true
        | UWriteHeader _ :: t -> first true t
        | (UWrite _ | UFlush) :: t -> seen && first seen t
        | _ :: t -> first seen t in
      let ans l = List.filter (function AStatus _ | ASize _ | AWritten _ -> true | _ -> false) (List.concat l) in
      (* ... and the lower writer reports the first status the spy got and the bytes the spy accepted *)
      let low_spec = (match Sx.field_opt "low" obs with
        | Some l -> (match Sx.args l with
            | [c; b; z] ->
                let first_code = (match List.find_opt (function UWriteHeader _ -> true | _ -> false) all with Some (UWriteHeader c) -> int_of_z c | _ -> 0) in
                let bytes = List.fold_left (fun a e -> match e with UWrite (_, n) -> a + int_of_n n | _ -> a) 0 all in
                Sx.int_of c = first_code && bool_of b = (first_code <> 0) && Sx.int_of z = bytes
            | _ -> false)
        | None -> false) in
      let spec = nwh <= 1 && first false all && ans outs = ans (run head (List.map (RWStack.view head1) ops)) && low_spec in
      let written1 = List.exists (function OWriteHeader _ | OWrite _ | OFlush _ -> true | _ -> false) pre in
      (sx_m, spec, written1 || List.exists (function OBefore _ -> true | _ -> false) ops,
       "stacked/" ^ (if written1 then "lower-written" else "lower-fresh") ^ (if head then "/HEAD" else ""))
  | None ->
  let m = run head ops in
  let sx_m = Sx.L (Sx.A "outs" :: List.map (fun es -> Sx.L (List.map sx_ev es)) m) in
  let spec = spec_ok head ops outs in
  (* non-trivial: a hook registered before the first trigger and >= 2 triggers *)
  let trig = List.length (List.filter (function OWriteHeader _ | OWrite _ | OFlush _ -> true | _ -> false) ops) in
  let hooks = List.exists (function OBefore _ -> true | _ -> false) ops in
  let panics = List.exists (function OBefore (_, true) -> true | _ -> false) ops in
  let cls = (if plain then "no-flusher/" else "") ^ (if panics then "panicking-hook/" else "") ^ (if head then "HEAD" else "other") ^ "/" ^ (match List.find_opt (function OWriteHeader _ | OWrite _ | OFlush _ -> true | _ -> false) ops with
      | Some (OWriteHeader _) -> "first=WriteHeader" | Some (OWrite _) -> "first=Write" | Some (OFlush _) -> "first=Flush" | _ -> "no-trigger") in
  ([sx_m], spec, trig >= 2 && hooks, cls)
