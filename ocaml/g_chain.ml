module List = Stdlib.List
open Conv
open Return
open Chain

let rv_of (x : Sx.t) : rv =
  let opt a = if a = Sx.A "nil" then None else Some (str a) in
  match Sx.tag x, Sx.args x with
  | "str", [s] -> RStr (str s)
  | "bytes", [b] -> RBytes (opt b)
  | "err", [e] -> RErr (opt e)
  | "int", [n] -> RInt (z_of_int (Sx.int_of n))
  | "ptr", [p] -> RPtr (opt p)
  | "other", [] -> ROther
  | "ptrb", [p] -> RPtrB (opt p)
  | _ -> failwith ("rv: " ^ Sx.show x)

let act_of (x : Sx.t) : act =
  match Sx.tag x, Sx.args x with
  | "wh", [c] -> AWriteHeader (z_of_int (Sx.int_of c))
  | "w", [b] -> AWrite (str b)
  | "next", [] -> ANext
  | "cancel", [] -> ACancel
  | "cancel", [_] -> ACancel    (* cancelled through a derived context that replaced the request's: the same event *)
  | "wrap", [] -> AWrapRW
  | "fl", [] -> AFlush
  | "panic", [v] -> APanic (nat_of_int (Sx.int_of v))
  | "maprh", [k] -> AMapRH (nat_of_int (Sx.int_of k))
  | "sub", [] -> ASub
  | _ -> failwith ("act: " ^ Sx.show x)

(* returns the handler and whether it is silent (the func() (int, string) fast path cannot log) *)
let handler_of (x : Sx.t) : handler * bool =
  match Sx.tag x with
  | "recovery" -> (HRecovery, true)
  | "unres" -> (HUnres, true)
  | "h" ->
      let acts = List.map act_of (Sx.args (Sx.field "acts" x)) in
      let ret = List.map rv_of (Sx.args (Sx.field "ret" x)) in
      let fast2 = (match Sx.field_opt "fast" x with Some f -> Sx.args f = [Sx.A "2"] | None -> false) in
      let silent = fast2 && acts = [] && (match ret with [RInt _; RStr _] -> true | _ -> false) in
      (HNormal (acts, ret), silent)
  | _ -> failwith ("handler: " ^ Sx.show x)

type cfg = { hs : handler list; silent : bool list; action : handler option; head : bool; dev : bool; reps : int; apprh : Datatypes.nat option }

let cfg_of (input : Sx.t) : cfg =
  let hl name = List.map handler_of (Sx.args (Sx.field name input)) in
  let groups = List.concat_map (fun g -> List.map handler_of (Sx.args g)) (Sx.args (Sx.field "groups" input)) in
  let all = hl "mw" @ groups @ hl "route" in
  let action = (match Sx.args (Sx.field "action" input) with [Sx.A "none"] -> None | [a] -> Some (handler_of a) | _ -> failwith "action") in
  { hs = List.map fst all;
    silent = List.map snd all @ (match action with Some (_, s) -> [s] | None -> [true]);
    action = (match action with Some (h, _) -> Some h | None -> None);
    head = bool_of (List.hd (Sx.args (Sx.field "head" input)));
    dev = bool_of (List.hd (Sx.args (Sx.field "dev" input)));
    reps = (match Sx.field_opt "reps" input with Some r -> Sx.int_of (List.hd (Sx.args r)) | None -> 1);
    apprh = (match Sx.field_opt "apprh" input with Some r -> (match Sx.args r with [Sx.A "none"] -> None | [k] -> Some (nat_of_int (Sx.int_of k)) | _ -> None) | None -> None) }

let ev_index = function Enter (i, _, _) | Exit i | Unwind i | NextCall i | NextRet i -> int_of_nat i | Sent -> -1

let sx_event : event -> Sx.t = function
  | Enter (i, st, c) -> Sx.L [Sx.A "en"; sx_int (int_of_nat i); sx_int (int_of_z st); sx_bool c]
  | Exit i -> Sx.L [Sx.A "ex"; sx_int (int_of_nat i)]
  | Unwind i -> Sx.L [Sx.A "uw"; sx_int (int_of_nat i)]
  | NextCall i -> Sx.L [Sx.A "nc"; sx_int (int_of_nat i)]
  | NextRet i -> Sx.L [Sx.A "nr"; sx_int (int_of_nat i)]
  | Sent -> Sx.L [Sx.A "sent"]

let event_of (x : Sx.t) : event =
  match Sx.tag x, Sx.args x with
  | "en", [i; st; c] -> Enter (nat_of_int (Sx.int_of i), z_of_int (Sx.int_of st), bool_of c)
  | "ex", [i] -> Exit (nat_of_int (Sx.int_of i))
  | "uw", [i] -> Unwind (nat_of_int (Sx.int_of i))
  | "nc", [i] -> NextCall (nat_of_int (Sx.int_of i))
  | "nr", [i] -> NextRet (nat_of_int (Sx.int_of i))
  | "sent", [] -> Sent
  | _ -> failwith ("event: " ^ Sx.show x)

let sx_chunk : chunk -> Sx.t = function
  | CBytes b -> Sx.L [Sx.A "b"; sx_str b]
  | CPanicPage (v, d) -> Sx.L [Sx.A "page"; sx_int (if d then int_of_nat v else -1); sx_bool d]

(* the model's answer for one request, projected to what the harness can observe *)
let model_result (c : cfg) : Sx.t =
  let out = serve c.hs c.action c.head c.dev c.apprh in
  let (s, esc) = (match out with
    | Done s -> (s, Sx.A "none")
    | Panicked (v, s) -> (s, sx_int (int_of_nat v))
    | OutOfFuel -> failwith "model out of fuel") in
  let is_silent i = i >= 0 && (try List.nth c.silent i with _ -> true) in
  let tr = List.filter (fun e -> not (is_silent (ev_index e))) s.trace in
  Sx.L [Sx.A "r"; Sx.L (Sx.A "trace" :: List.map sx_event tr); Sx.L [Sx.A "status"; sx_int (int_of_z s.status)];
        Sx.L (Sx.A "body" :: List.map sx_chunk s.body); Sx.L [Sx.A "escaped"; esc]]

(* with (rot 1) the scripted panic values differ from one request of the case to the next (string, error, struct,
   string, http.ErrAbortHandler in turn): what one request's panic was must not matter to the next *)
let rot_set = [1; 2; 4; 6; 5]
let rot_value (k : int) (v : int) : int =
  let rec idx i = function [] -> -1 | x :: r -> if x = v then i else idx (i + 1) r in
  let i = idx 0 rot_set in if i < 0 then v else List.nth rot_set ((i + k) mod 5)
let rot_handler k = function
  | HNormal (acts, ret) -> HNormal (List.map (function APanic v -> APanic (nat_of_int (rot_value k (int_of_nat v))) | a -> a) acts, ret)
  | h -> h
let rot_cfg (rot : bool) (c : cfg) (k : int) : cfg =
  if not rot then c else { c with hs = List.map (rot_handler k) c.hs; action = Option.map (rot_handler k) c.action }
let rec repeat k x = if k <= 0 then [] else x :: repeat (k - 1) x
let model_results (input : Sx.t) (c : cfg) : Sx.t list =
  let rot = (match Sx.field_opt "rot" input with Some r -> Sx.args r = [Sx.A "1"] | None -> false) in
  List.init (max c.reps 0) (fun k -> model_result (rot_cfg rot c k))

let obs_trace r = List.map event_of (Sx.args (Sx.field "trace" r))
let obs_status r = Sx.int_of (List.hd (Sx.args (Sx.field "status" r)))
let obs_escaped r = List.hd (Sx.args (Sx.field "escaped" r))
let obs_body_concat r =
  String.concat "" (List.map (fun ch -> match Sx.tag ch, Sx.args ch with
    | "b", [b] -> ocaml_string_of_str (str b) | _ -> "<page>") (Sx.args (Sx.field "body" r)))

let count_next = function HNormal (acts, _) -> List.length (List.filter (fun a -> a = ANext) acts) | _ -> 0
let has_panic = function HNormal (acts, _) -> List.exists (function APanic _ -> true | _ -> false) acts | HUnres -> true | _ -> false

(* C03 *)
let eval_c03 (input : Sx.t) (obs : Sx.t) =
  let c = cfg_of input in
  let m = model_results input c in
  let spec = List.for_all (fun r -> chain_spec_ok c.hs c.action (obs_trace r)) (Sx.args obs) in
  let nexts = List.fold_left (fun a h -> a + count_next h) 0 c.hs in
  let multi = List.exists (fun h -> count_next h >= 2) c.hs in
  let cls = Printf.sprintf "len%s%s%s" (if List.length c.hs >= 5 then ">=5" else "<5") (if multi then ",multi-next" else "") (if List.exists has_panic c.hs then ",panic" else "") in
  (m, spec, (multi || nexts >= 2) && List.length c.hs >= 2, cls)

(* C14: the first handler that returns something decides the response when nothing was written before
   it; a ReturnHandler mapped in the request scope (by an earlier handler) or in the application scope
   replaces the table *)
let eval_c14 (input : Sx.t) (obs : Sx.t) =
  let c = cfg_of input in
  let m = model_results input c in
  let all = c.hs @ (match c.action with Some a -> [a] | None -> []) in
  let custom k = let k = int_of_nat k in (Some (z_of_int (290 + k), [n_of_int 82; n_of_int (48 + k)]), true) in
  let only_maps acts = List.for_all (function AMapRH _ | AWrapRW -> true | _ -> false) acts in
  let rec first rh wr = function
    | HNormal (acts, ret) :: rest when only_maps acts ->
        let rh' = List.fold_left (fun r a -> match a with AMapRH k -> Some k | _ -> r) rh acts in
        let wr' = wr || List.mem AWrapRW acts in
        if ret = [] then first rh' wr' rest
        else (match rh', c.apprh with
          | Some k, _ -> let (r, o) = custom k in (r, o, false)
          | None, Some k -> let (r, o) = custom k in (r, o, false)
          | None, None ->
              if not (supported ret) then (None, false, false)
              else (match table ret with Some (st, b) -> (Some (st, b), false, wr') | None -> first rh' wr' rest))
    | _ -> (None, false, false) in
  let (spec, cls, nt) = (match first None false all with
    | (Some (st, b), over, wr) ->
        (* through a re-mapped http.ResponseWriter the table's body arrives behind the wrapper's marker *)
        let chunks r = List.filter_map (fun ch -> match Sx.tag ch, Sx.args ch with
            | "b", [x] -> Some (ocaml_string_of_str (str x)) | _ -> None) (Sx.args (Sx.field "body" r)) in
        let ok = List.for_all (fun r ->
          obs_status r = int_of_z st &&
          (c.head ||
           if wr then String.concat "" (List.filter (fun x -> x <> "W") (chunks r)) = ocaml_string_of_str b
                      && (b = [] || List.mem "W" (chunks r))
           else obs_body_concat r = ocaml_string_of_str b)) (Sx.args obs) in
        (ok, (if over then "override" else if wr then "table-through-remapped-writer" else "table"), true)
    | (None, _, _) -> (true, "undecided", false)) in
  (m, spec, nt, cls)

(* C15: Recovery present, handlers before it do not panic themselves (the property has no further premise;
   the generator keeps them to <= 1 Next because of known finding F16, which is probed by a corpus case) *)
let eval_c15 (input : Sx.t) (obs : Sx.t) =
  let c = cfg_of input in
  let m = model_results input c in
  let rec split i = function
    | HRecovery :: _ -> Some i
    | h :: rest -> if has_panic h then None else split (i + 1) rest
    | [] -> None in
  let rs = Sx.args obs in
  let (spec, cls) = (match split 0 c.hs with
    | None -> (true, "premises-not-met")
    | Some r ->
        let ok_one res =
          let tr = obs_trace res in
          obs_escaped res = Sx.A "none" &&
          List.for_all (fun ch -> match Sx.tag ch, Sx.args ch with
            | "page", [_; d] -> bool_of d = c.dev && obs_status res <> 0
            | _ -> true) (Sx.args (Sx.field "body" res)) &&
          (* middleware before Recovery completes its code after Next() *)
          List.for_all (fun e -> match e with
            | NextCall i when int_of_nat i < r -> List.mem (NextRet i) tr && List.mem (Exit i) tr
            | Enter (i, _, _) when int_of_nat i < r -> List.mem (Exit i) tr
            | _ -> true) tr in
        (* later requests are served as if nothing had happened: the same answer again (up to which panic value a
           page shows, when the scripted values rotate from request to request) *)
        let rec blank (x : Sx.t) : Sx.t = (match x with
          | Sx.L [Sx.A "page"; _; d] -> Sx.L [Sx.A "page"; Sx.A "_"; d]
          | Sx.L [Sx.A "escaped"; _] -> x
          | Sx.L l -> Sx.L (List.map blank l)
          | a -> a) in
        let rs' = List.map blank rs in
        let same = (match rs' with [] -> true | r0 :: rest -> List.for_all (fun x -> x = r0) rest) in
        (List.for_all ok_one rs && same, "recovery@" ^ string_of_int r)) in
  let panics = List.exists has_panic c.hs || (match c.action with Some a -> has_panic a | None -> false) in
  (m, spec, panics, cls ^ (if panics then ",panics" else ""))
