module List = Stdlib.List

(* C05: the serial answers are judged like C01 (model + priority spec); the concurrent run on an
   identically built instance must have given the same answers *)
let eval (input : Sx.t) (obs : Sx.t) : Sx.t list * bool * bool * string =
  let outs = Sx.field "outs" obs in
  let (m, spec, _, cls) = G_router.eval "C01" input (Sx.L [Sx.A "obs"; outs]) in
  let same = Sx.L [Sx.A "conc"; Sx.L [Sx.A "same"]] in
  let conc = Sx.field "conc" obs in
  let nreq = List.length (List.filter (fun o -> Sx.tag o = "req") (Sx.args (Sx.field "ops" input))) in
  (m @ [same], spec && conc = same, nreq >= 16, cls)
