module List = Stdlib.List
open Conv
open BinNums
open Route
open Groups
open Router

let hs_of (x : Sx.t) = List.map (fun i -> nat_of_int (Sx.int_of i)) (Sx.args x)
let atom_str (a : Sx.t) = List.map (fun c -> n_of_int (Char.code c)) (List.init (String.length (Sx.atom a)) (String.get (Sx.atom a)))

(* a trailing (hdr 1): .Headers("X-Gate", "") is called on what the statement returns *)
let split_hdr (l : Sx.t list) : Sx.t list * bool =
  match List.rev l with
  | (Sx.L [Sx.A "hdr"; b]) :: r -> (List.rev r, bool_of b)
  | _ -> (l, false)

let rec stmt_of (x : Sx.t) : stmt =
  let (a, hdr) = split_hdr (Sx.args x) in
  match Sx.tag x, a with
  | "route", [m; p; hs] -> SRoute (atom_str m, str p, hs_of hs, hdr)
  | "get", [p; hs] -> SGet (str p, hs_of hs, hdr)
  | "routes", [p; ms; extra; hs] -> SRoutes (str p, str ms, List.map str (Sx.args extra), hs_of hs, hdr)
  | "any", [p; hs] -> SAny (str p, hs_of hs, hdr)
  | "group", [p; hs; body] -> SGroup (str p, hs_of hs, List.map stmt_of (Sx.args body))
  | "combo", p :: hs :: uses -> SCombo (str p, hs_of hs, List.map (fun u -> match Sx.tag u, Sx.args u with "use", [m; h] -> CUse (atom_str m, hs_of h) | "autohead", [b] -> CAuto (bool_of b) | _ -> failwith "use") uses)
  | "autohead", [b] -> SAutoHead (bool_of b)
  | "wrapper", [b] -> SWrapper (bool_of b)
  | "cnew", [id; p; hs] -> SComboNew (nat_of_int (Sx.int_of id), str p, hs_of hs)
  | "cuse", [id; m; hs] -> SComboUse (nat_of_int (Sx.int_of id), atom_str m, hs_of hs)
  | _ -> failwith ("stmt: " ^ Sx.show x)

(* the restricted route syntax of C11 programs: "/" separated, a segment is "{name}" or a literal *)
let route_of_path (p : coq_N list) : route =
  let s = ocaml_string_of_str p in
  let s = if String.length s > 0 && s.[0] = '/' then String.sub s 1 (String.length s - 1) else s in
  List.map (fun seg ->
    let n = String.length seg in
    let to_str t = List.init (String.length t) (fun i -> n_of_int (Char.code t.[i])) in
    if n = 0 then { optional = false; elems = [] }
    else if seg.[0] = '{' && seg.[n - 1] = '}' then { optional = false; elems = [EBind (to_str (String.sub seg 1 (n - 2)))] }
    else { optional = false; elems = [EIdent (to_str seg)] }) (String.split_on_char '/' s)

let methods_idx (m : coq_N list) : Datatypes.nat list =
  let name = String.uppercase_ascii (ocaml_string_of_str m) in
  if name = "*" then List.init 9 nat_of_int
  else match G_router.method_index name with Some i -> [nat_of_int i] | None -> []

let gate_name = List.map (fun c -> n_of_int (Char.code c)) (List.init 6 (String.get "X-Gate"))
let gate_val = List.map (fun c -> n_of_int (Char.code c)) (List.init 2 (String.get "on"))

let predict (regs : freg list option) (probes : Sx.t list) : Sx.t list =
  match checked regs with
  | None -> [Sx.L [Sx.A "regs"; Sx.L [Sx.A "panic"]]]
  | Some regs ->
      let compile _ = None in
      let st = ref rinit and ok = ref true in
      List.iter (fun r ->
        if !ok then match (if (match r.fr_path with c :: _ -> int_of_n c = 47 | [] -> false) then methods_idx r.fr_method else []) with
          | [] -> ok := false                        (* unknown HTTP method, or a full path that does not begin with '/' (a relative
                                                        path used outside the slash-terminated group it was written for): the registration panics *)
          | ms -> (match register compile !st ms (route_of_path r.fr_path) with
                   | Some st' ->
                       let rid = Stdlib.List.length (!st).infos in
                       st := if r.fr_hdr then set_headers st' (nat_of_int rid) [(gate_name, Regex.Eps)] else st'
                   | None -> ok := false)) regs;
      if not !ok then [Sx.L [Sx.A "regs"; Sx.L [Sx.A "panic"]]]
      else
        let res = List.map (fun pr -> match Sx.args pr with
          | m :: path :: gate ->
              let hdrs = if gate = [] then [] else [(gate_name, gate_val)] in
              let mi = (match G_router.method_index (ocaml_string_of_str (str m)) with Some i -> Some (nat_of_int i) | None -> None) in
              (match serve !st mi (str path) hdrs with
               | NotFound -> Sx.L [Sx.A "notfound"]
               | Found (rid, ps) ->
                   let r = List.nth regs (int_of_nat rid) in
                   let ps = (G_router.s_route, render_route (route_of_path r.fr_path)) :: ps in
                   Sx.L [Sx.A "r"; Sx.L (Sx.A "hs" :: List.map (fun h -> sx_int (int_of_nat h)) (run_trace r));
                         Sx.L (Sx.A "params" :: G_router.sx_params ps)])
          | _ -> failwith "probe") probes in
        [Sx.L [Sx.A "regs"; Sx.L [Sx.A "ok"]]; Sx.L (Sx.A "probes" :: res)]

let rec has_nested_group d = function
  | SGroup (_, _, body) -> d >= 1 || List.exists (has_nested_group (d + 1)) body
  | _ -> false

let eval (input : Sx.t) (obs : Sx.t) : Sx.t list * bool * bool * string =
  let prog = List.map stmt_of (Sx.args (Sx.field "prog" input)) in
  let probes = Sx.args (Sx.field "probes" input) in
  let wrap = (match Sx.field_opt "wrap" input with Some w -> bool_of (List.hd (Sx.args w)) | None -> false) in
  let m = predict (exec wrap prog) probes in
  (* the property: the implementation behaves like the FLAT expansion *)
  let flat = predict (flatten wrap prog) probes in
  let spec = (flat = Sx.args obs) in
  let nested = List.exists (has_nested_group 0) prog in
  let cls = (if nested then "nested-groups" else "flat-or-single") ^ (if exec wrap prog = None then ",refused" else "") in
  (m, spec, nested || List.exists (function SCombo _ | SComboNew _ -> true | _ -> false) prog, cls)
