module List = Stdlib.List
open Conv
open Inject

let eval (input : Sx.t) (obs : Sx.t) : Sx.t list * bool * bool * string =
  let ifaces = List.map Sx.int_of (Sx.args (Sx.field "ifaces" input)) in
  let impl = List.map (fun i -> match Sx.args i with [k; t] -> (Sx.int_of k, Sx.int_of t) | _ -> failwith "impl") (Sx.args (Sx.field "impl" input)) in
  let is_iface t = List.mem (int_of_nat t) ifaces in
  (* framework services (ids >= 100) implement only interface{} (type 8) *)
  let implements k t = let k = int_of_nat k and t = int_of_nat t in List.mem (k, t) impl || (k >= 100 && t = 8) in
  let n = Sx.int_of (List.hd (Sx.args (Sx.field "injectors" input))) in
  let scopes = Array.make n [] in
  let chain i = List.init (i + 1) (fun k -> scopes.(i - k)) in
  let reg i k v = scopes.(i) <- register scopes.(i) (nat_of_int k) (nat_of_int v) in
  let outs_obs = Sx.args (Sx.field "outs" obs) in
  let spec = ref true and nontrivial = ref false in
  let value ch t = List.map int_of_nat (value is_iface implements ch (nat_of_int t)) in
  let pick admissible observed = if List.mem observed admissible then observed else (match admissible with a :: _ -> a | [] -> -999) in
  let outs = List.mapi (fun idx op ->
    let o = (try List.nth outs_obs idx with _ -> Sx.A "missing") in
    let a = Sx.args op in
    match Sx.tag op, a with
    | "map", [i; vty; id] -> reg (Sx.int_of i) (Sx.int_of vty) (Sx.int_of id); Sx.L [Sx.A "ok"]
    | "mapto", [i; _; id; target] -> reg (Sx.int_of i) (Sx.int_of target) (Sx.int_of id); Sx.L [Sx.A "ok"]
    | "set", [i; key; _; id] -> reg (Sx.int_of i) (Sx.int_of key) (Sx.int_of id); Sx.L [Sx.A "ok"]
    | "setnil", [i; key] ->      (* Set(type, reflect.Value{}): the key is in the map, its value is not valid *)
        scopes.(Sx.int_of i) <- register_invalid scopes.(Sx.int_of i) (nat_of_int (Sx.int_of key)); Sx.L [Sx.A "ok"]
    | "value", [i; t] ->
        (match value (chain (Sx.int_of i)) (Sx.int_of t) with
         | [] -> Sx.L [Sx.A "none"]
         | adm -> let ob = (match Sx.tag o, Sx.args o with "v", [x] -> Sx.int_of x | _ -> -998) in
                  if List.length adm > 1 then nontrivial := true;
                  Sx.L [Sx.A "v"; sx_int (pick adm ob)])
    | "invoke", [i; _; sg] ->
        let params = List.map (fun t -> nat_of_int (Sx.int_of t)) (Sx.args sg) in
        let ch = chain (Sx.int_of i) in
        (match resolve is_iface implements ch params with
         | IError t ->
             (* spec: the error names a type no scope resolves, and it is the first such parameter; body not run *)
             Sx.L [Sx.A "err"; sx_int (int_of_nat t); Sx.L [Sx.A "calls"; sx_int 0]]
         | ICall args ->
             let ob_args = (match Sx.tag o with "call" -> List.map Sx.int_of (Sx.args (Sx.field "args" o)) | _ -> []) in
             let args = List.mapi (fun k adm -> let adm = List.map int_of_nat adm in
                          pick adm (try List.nth ob_args k with _ -> -998)) args in
             if List.length params >= 2 then nontrivial := true;
             Sx.L [Sx.A "call"; Sx.L (Sx.A "args" :: List.map sx_int args); Sx.L [Sx.A "calls"; sx_int 1]; Sx.L [Sx.A "result"; Sx.A "1"]])
    | "apply", (i :: fields :: _) ->      (* an optional (deep k): the struct behind k more pointers, the same to Apply *)
        let fs = List.map (fun f -> match Sx.args f with
          | [t; tg] -> (nat_of_int (Sx.int_of t), Sx.atom tg = "1") | _ -> failwith "field") (Sx.args fields) in
        let ob_sets = (match Sx.tag o with "aok" | "aerr" -> List.map (fun f -> match Sx.args f with [k; v] -> (Sx.int_of k, Sx.int_of v) | _ -> (-1, -1)) (Sx.args (Sx.field "sets" o)) | _ -> []) in
        (* a field set to a typed nil pointer (value 0) cannot be told from a field that was not set: it is left out
           on both sides *)
        let show sets = Sx.L (Sx.A "sets" :: List.filter_map (fun (k, adm) ->
          let k = int_of_nat k and adm = List.map int_of_nat adm in
          let v = pick adm (try List.assoc k ob_sets with Not_found -> (if List.mem 0 adm then 0 else -998)) in
          if v = 0 then None else Some (Sx.L [Sx.A "f"; sx_int k; sx_int v])) sets) in
        (match apply_fields is_iface implements (chain (Sx.int_of i)) Datatypes.O fs with
         | AOk sets -> Sx.L [Sx.A "aok"; show sets]
         | AError (sets, t) -> Sx.L [Sx.A "aerr"; sx_int (int_of_nat t); show sets])
    | "request", [app; reqs] ->
        nontrivial := true;
        let app_scope = List.fold_left (fun s m -> match Sx.args m with
            | [vty; id] -> register s (nat_of_int (Sx.int_of vty)) (nat_of_int (Sx.int_of id)) | _ -> s)
            [(nat_of_int 103, Some (nat_of_int (-1 + 0))); (nat_of_int 104, Some (nat_of_int 0)); (nat_of_int 105, Some (nat_of_int 0))] (Sx.args app) in
        let ob_reqs = (match Sx.tag o with "reqres" -> Sx.args o | _ -> []) in
        Sx.L (Sx.A "reqres" :: List.mapi (fun ri r ->
          let rs = ref [(nat_of_int 100, Some (nat_of_int 0)); (nat_of_int 101, Some (nat_of_int 0)); (nat_of_int 102, Some (nat_of_int 0))] in
          let ob = (try Sx.args (List.nth ob_reqs ri) with _ -> []) in
          Sx.L (Sx.A "r" :: List.mapi (fun hi h ->
            let want = Sx.int_of (List.hd (Sx.args (Sx.field "want" h))) in
            (* framework values are reported with identity -1 by the harness: model them as 0 -> -1 *)
            let adm = List.map (fun v -> if v = 0 then -1 else v) (value [!rs; app_scope] want) in
            let res = (match adm with
              | [] -> Sx.A "none"
              | _ -> let obv = (try (match List.nth ob hi with Sx.A "none" -> -998 | x -> Sx.int_of x) with _ -> -998) in sx_int (pick adm obv)) in
            List.iter (fun m -> match Sx.args m with
              | [vty; id] -> rs := register !rs (nat_of_int (Sx.int_of vty)) (nat_of_int (Sx.int_of id)) | _ -> ()) (Sx.args (Sx.field "maps" h));
            res) (Sx.args r))) (Sx.args reqs)
          @ [Sx.L [Sx.A "remap"; sx_bool true; sx_bool true]])   (* a re-mapped Context reaches fast-path and reflective handlers alike *)
    | _ -> failwith ("op: " ^ Sx.show op)) (Sx.args (Sx.field "ops" input)) in
  (* spec on the implementation's own answers: an Invoke error must name a type that really has no
     registration (exact or implementing) in any scope of the chain, and then the body did not run;
     a call ran the body exactly once with results unchanged *)
  List.iter (fun o -> match Sx.tag o with
    | "err" -> if Sx.field "calls" o <> Sx.L [Sx.A "calls"; Sx.A "0"] then spec := false
    | "call" -> if Sx.field "calls" o <> Sx.L [Sx.A "calls"; Sx.A "1"] || Sx.field "result" o <> Sx.L [Sx.A "result"; Sx.A "1"] then spec := false
    | _ -> ()) outs_obs;
  if [Sx.L (Sx.A "outs" :: outs)] <> Sx.args obs then spec := false;
  ([Sx.L (Sx.A "outs" :: outs)], !spec, !nontrivial, Printf.sprintf "scopes=%d" n)
