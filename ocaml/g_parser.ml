module List = Stdlib.List
open Conv
open BinNums
open Route

let sx_route (r : route) : Sx.t =
  Sx.L (Sx.A "route" :: List.map (fun s ->
    Sx.L (Sx.A "seg" :: sx_bool s.optional :: List.map (fun e -> match e with
      | EIdent i -> Sx.L [Sx.A "id"; sx_str i]
      | EBind b -> Sx.L [Sx.A "bind"; sx_str b]
      | EParams ps -> Sx.L (Sx.A "params" :: List.map (fun (n, v) -> Sx.L [Sx.A "p"; sx_str n; (match v with
          | VLit l -> Sx.L [Sx.A "lit"; sx_str l] | VRegex s -> Sx.L [Sx.A "re"; sx_str s])]) ps)) s.elems)) r)

let eval (input : Sx.t) (obs : Sx.t) : Sx.t list * bool * bool * string =
  let s = str (List.hd (Sx.args (Sx.field "s" input))) in
  let model = (match Parser.parse s with
    | None -> Sx.L [Sx.A "rej"]
    | Some r ->
        let c = render_route r in
        let re = (match Parser.parse c with Some r2 -> if r2 = r && render_route r2 = c then "same" else "diff" | None -> "rej") in
        Sx.L [Sx.A "ok"; sx_route r; Sx.L [Sx.A "str"; sx_str c]; Sx.L [Sx.A "reparse"; Sx.A re]]) in
  let o = List.hd (Sx.args obs) in
  (* the property, judged on the implementation's answer: no panic; accepted iff in the documented
     grammar (byte-level BNF recogniser), with the derivation's structure; canonical form a fixpoint *)
  let bnf = Grammar.bnf_parse s in
  let spec = (match Sx.tag o, Sx.args o with
    | "panic", _ -> false
    | "rej", _ -> bnf = None
    | "ok", [ast; _; re] -> (match bnf with Some r -> sx_route r = ast | None -> false) && re = Sx.L [Sx.A "reparse"; Sx.A "same"]
    | _ -> false) in
  let accepted = (match model with Sx.L (Sx.A "ok" :: _) -> true | _ -> false) in
  let cls = if accepted then "accepted" else "rejected" in
  ([model], spec, accepted && List.length s >= 4, cls)
