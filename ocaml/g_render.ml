module List = Stdlib.List
open Conv
open Render

let eval (input : Sx.t) (obs : Sx.t) : Sx.t list * bool * bool * string =
  let arg name = List.hd (Sx.args (Sx.field name input)) in
  let charset = charset_of (str (arg "charset")) in
  let early = bool_of (arg "early") in
  let reqs = Sx.args (Sx.field "reqs" input) in
  let one q =
    if early then Sx.L [Sx.A "panic"] else
    (match Sx.args q with
     | Sx.A kind :: status :: _ ->
         let k = (match kind with "json" -> KJSON | "xml" -> KXML | "binary" -> KBinary | _ -> KText) in
         let r = run_hops false fresh (render_ops k charset (z_of_int (Sx.int_of status)) []) in
         let ct = (match get_hdr r.r_sent_hdrs s_ct with Some c -> c | None -> []) in
         (* faithful body and a single write are the encoder oracle's business: expected 1 1 *)
         Sx.L [Sx.A "resp"; sx_int (int_of_z r.r_status); sx_str ct; Sx.A "1"; sx_int (List.length r.r_body)]
     | _ -> failwith "req") in
  let nested0 = bool_of (arg "nested") && List.length reqs > 1 in
  let model = List.concat (List.mapi (fun i q -> if early && nested0 && i = 1 then [] else [one q]) reqs) in
  (* the property on the implementation's answers: given status, right content type incl. charset,
     faithful body; when a handler before the Renderer asks for Render the request fails *)
  let spec = (model = Sx.args obs) in
  let nested = bool_of (arg "nested") && List.length reqs > 1 in
  (model, spec, nested || List.exists (fun q -> match Sx.args q with Sx.A ("json" | "xml") :: _ -> true | _ -> false) reqs,
   if early then "early-request" else if nested then "nested" else "sequential")
