module List = Stdlib.List
open Conv
open BinNums
open Regex
open Route
open Tree
open Router
open UrlPath

(* regex AST *)
let rec re_of (x : Sx.t) : re =
  match Sx.tag x, Sx.args x with
  | "eps", [] -> Eps
  | "lit", [s] -> lit_re (str s)
  | "cls", rs -> Chr (CRanges (List.map (fun r -> match Sx.args r with [lo; hi] -> (n_of_int (Sx.int_of lo), n_of_int (Sx.int_of hi)) | _ -> failwith "range") rs))
  | "any", [] -> Chr CAny
  | "cat", [a; b] -> Cat (re_of a, re_of b)
  | "alt", [a; b] -> Alt (re_of a, re_of b)
  | "star", [a] -> Star (re_of a)
  | "plus", [a] -> plus (re_of a)
  | "opt", [a] -> opt (re_of a)
  | "grp", [a] -> re_of a                      (* inner groups do not capture bind values *)
  | _ -> failwith ("re: " ^ Sx.show x)

let compile_of (input : Sx.t) : coq_N list -> re option =
  let tbl = List.map (fun r -> match Sx.args r with
      | [src; ast] -> (str src, if Sx.tag ast = "bad" then None else Some (re_of ast))
      | _ -> failwith "regexes") (Sx.args (Sx.field "regexes" input)) in
  (* a source that is not in the table makes the case unreadable (it can only come from a shrinking step) *)
  fun src -> (try List.assoc src tbl with Not_found -> failwith "regex source not in the table of the case")

let route_of (x : Sx.t) : route =
  List.map (fun s -> match Sx.args s with
    | o :: els -> { optional = bool_of o; elems = List.map (fun e -> match Sx.tag e, Sx.args e with
        | "id", [s] -> EIdent (str s)
        | "bind", [s] -> EBind (str s)
        | "params", ps -> EParams (List.map (fun p -> match Sx.args p with
            | [n; v] -> (str n, (match Sx.tag v, Sx.args v with
                | "lit", [l] -> VLit (str l) | "re", [src] -> VRegex (str src) | _ -> failwith "pval"))
            | _ -> failwith "param") ps)
        | _ -> failwith ("elem: " ^ Sx.show e)) els }
    | _ -> failwith "seg") (Sx.args x)

let method_names = ["GET"; "POST"; "PUT"; "DELETE"; "PATCH"; "OPTIONS"; "HEAD"; "CONNECT"; "TRACE"]
let method_index (name : string) : int option =
  let rec go i = function [] -> None | m :: r -> if m = name then Some i else go (i + 1) r in go 0 method_names

let methods_of_spec (ms : Sx.t) : Datatypes.nat list =
  match Sx.tag ms, Sx.args ms with
  | "any", [] -> List.init 9 nat_of_int
  | "m", [Sx.A name] -> (match method_index (String.uppercase_ascii name) with Some i -> [nat_of_int i] | None -> [])
  | "m", [] -> []
  | "list", [l] ->      (* Routes(path, "A,B"): split on commas, trim blanks; one unknown entry refuses the registration *)
      let parts = List.map String.trim (String.split_on_char ',' (ocaml_string_of_str (str l))) in
      let idx = List.map (fun n -> method_index (String.uppercase_ascii n)) parts in
      if List.mem None idx then [] else List.filter_map (fun i -> Option.map nat_of_int i) idx
  | _ -> failwith "method spec"

(* a header key with an empty list of values reads as absent (http.Header.Get returns "") *)
let hdrs_of (x : Sx.t) = List.filter_map (fun h -> match Sx.args h with
  | [_; Sx.A "novalues"] -> None
  | n :: v :: _ -> Some (str n, str v)      (* a repeated header: Get answers with its first value *)
  | _ -> failwith "hdr") (Sx.args x)

let s_route = str_of_hex "x726f757465"

let sx_params ps =
  let ps = List.map (fun (k, v) -> (ocaml_string_of_str k, (k, v))) ps in
  let ps = List.sort (fun (a, _) (b, _) -> compare a b) ps in
  List.map (fun (_, (k, v)) -> Sx.L [Sx.A "p"; sx_str k; sx_str v]) ps

type hist = {
  mutable st : rstate;
  mutable attempt : int;
  mutable rid_of_attempt : (int * int) list;         (* attempt index -> model route id *)
  mutable accepted : (int * int * Datatypes.nat list * route) list;  (* attempt, rid, methods, route *)
  mutable named : (string * route) list;
}

let attempt_of h rid = fst (List.find (fun (_, r) -> r = rid) h.rid_of_attempt)

let sx_outcome h (o : outcome) : Sx.t =
  match o with
  | NotFound -> Sx.L [Sx.A "notfound"]
  | Found (rid, ps) ->
      let rid = int_of_nat rid in
      let (_, _, _, r) = List.find (fun (_, x, _, _) -> x = rid) h.accepted in
      let ps = Router.deliver r ps in      (* the reserved parameter, as the model sets it (C02_reserved_route) *)
      Sx.L (Sx.A "found" :: sx_int (attempt_of h rid) :: sx_params ps)

(* routes registered for method mi, as (rid, route), for the declarative spec *)
let routes_for h (mi : int) =
  List.filter_map (fun (_, rid, ms, r) -> if List.exists (fun m -> int_of_nat m = mi) ms then Some (nat_of_int rid, r) else None) (List.rev h.accepted)

(* candidate value decompositions of one raw segment for a regex-style kind (C02 judge) *)
let rec splits (s : 'a list) : ('a list * 'a list) list =
  ([], s) :: (match s with [] -> [] | x :: r -> List.map (fun (a, b) -> (x :: a, b)) (splits r))

let rec decomps (ps : piece list) (s : coq_N list) : (coq_N list * coq_N list) list list =
  match ps with
  | [] -> if s = [] then [[]] else []
  | PLit l :: ps' ->
      let n = List.length l in
      if List.length s >= n && List.filteri (fun i _ -> i < n) s = l
      then decomps ps' (List.filteri (fun i _ -> i >= n) s) else []
  | PBind (name, r) :: ps' ->
      List.concat_map (fun (v, rest) ->
        if full r v <> None then List.map (fun d -> (name, v) :: d) (decomps ps' rest) else []) (splits s)

(* all raw parameter assignments under which the flat form (kinds) admits the segments *)
let rec adm_params (ks : kind list) (segs : coq_N list list) : (coq_N list * coq_N list) list list =
  match ks, segs with
  | [], _ | _, [] -> []
  | [k], [s] -> (match k with
      | KStatic l -> if l = s then [[]] else []
      | KPlace b -> [[(b, s)]]
      | KAll (b, _) -> [[(b, s)]]
      | KRegex ps -> decomps ps s)
  | [KAll (b, cap)], _ -> if cap_ok cap (nat_of_int (List.length segs)) then [[(b, join_slash segs)]] else []
  | [_], _ -> []
  | _ :: _, [_] -> []
  | k :: ks', s :: rest -> (match k with
      | KAll (b, cap) ->
          List.concat_map (fun n ->
            if cap_ok cap (nat_of_int n) && n < List.length segs then
              let taken = List.filteri (fun i _ -> i < n) segs and rem = List.filteri (fun i _ -> i >= n) segs in
              List.map (fun d -> (b, join_slash taken) :: d) (adm_params ks' rem)
            else []) (List.init (List.length segs) (fun i -> i + 1))
      | KStatic l -> if l = s then adm_params ks' rest else []
      | KPlace b -> List.map (fun d -> (b, s) :: d) (adm_params ks' rest)
      | KRegex ps -> List.concat_map (fun d1 -> List.map (fun d -> d1 @ d) (adm_params ks' rest)) (decomps ps s))

let norm ps = List.sort compare (List.map (fun (k, v) -> (ocaml_string_of_str k, ocaml_string_of_str v)) ps)

(* policy same: after a rejected registration the history goes on with the SAME instance.  AddRoute is not atomic
   (known finding F11: sub-trees of a rejected route stay behind and may change what later registrations are
   told), so such a history is not compared with the atomic model; what is judged is the part of C08 that F11
   leaves intact: a registration that failed never answers a request *)
let eval_keep (input : Sx.t) (obs : Sx.t) : Sx.t list * bool * bool * string =
  let ops = Sx.args (Sx.field "ops" input) and outs = Sx.args (Sx.field "outs" obs) in
  let attempt = ref 0 and rejected = ref [] and ok = ref true and seen_rej_then_req = ref false in
  List.iteri (fun i op ->
    let o = (try List.nth outs i with _ -> Sx.A "missing") in
    match Sx.tag op with
    | "reg" -> (if o <> Sx.L [Sx.A "ok"] then rejected := !attempt :: !rejected); incr attempt
    | "req" -> (if !rejected <> [] then seen_rej_then_req := true;
                match Sx.tag o, Sx.args o with
                | "found", at :: _ -> if List.mem (Sx.int_of at) !rejected then ok := false
                | _ -> ())
    | _ -> ()) ops;
  (Sx.args obs, !ok, !seen_rej_then_req, "same-instance-after-rejection")

let eval (prop : string) (input : Sx.t) (obs : Sx.t) : Sx.t list * bool * bool * string =
  if (match Sx.field_opt "policy" input with Some p -> Sx.args p = [Sx.A "same"] | None -> false) then eval_keep input obs else
  let compile = compile_of input in
  let h = { st = rinit; attempt = 0; rid_of_attempt = []; accepted = []; named = [] } in
  let outs_obs = Sx.args (Sx.field "outs" obs) in
  let spec = ref true and nontrivial = ref false in
  let nreq = ref 0 and nfound = ref 0 and nmulti = ref 0 and nrej = ref 0 in
  let fail why = if !spec then prerr_endline ("spec: " ^ why); spec := false in
  let outs_model = List.mapi (fun i op ->
    let o = (try List.nth outs_obs i with _ -> Sx.A "missing") in
    match Sx.tag op, Sx.args op with
    | "reg", [ms; Sx.L [Sx.A "text"; txt]] when
        (* a raw route text: outside the grammar it is refused; one that spells a regex is left to the AST stream *)
        (match Parser.parse (str txt) with
         | None -> true
         | Some r -> List.exists (fun sg -> List.exists (function EParams ps -> List.exists (fun (_, v) -> match v with VRegex _ -> true | _ -> false) ps | _ -> false) sg.elems) r) ->
        h.attempt <- h.attempt + 1;
        (match Parser.parse (str txt) with
         | None ->
             if prop = "C08" then begin
               if o = Sx.L [Sx.A "ok"] then fail (Printf.sprintf "registration of %s accepted although the text is outside the grammar" (Sx.show txt));
               incr nrej; nontrivial := true
             end;
             Sx.L [Sx.A "rej"]
         | Some _ -> o)
    | "reg", [ms; r] ->
        let at = h.attempt in h.attempt <- at + 1;
        let r = (match r with Sx.L [Sx.A "text"; txt] -> (match Parser.parse (str txt) with Some r -> r | None -> failwith "text") | _ -> route_of r) in
        let ms = methods_of_spec ms in
        (* C08: accept iff valid for every method concerned (and the method is known) *)
        let declared_valid = ms <> [] && List.for_all (fun m -> RouteSpec.valid compile (routes_for h (int_of_nat m)) r) ms in
        if prop = "C08" then begin
          if (o = Sx.L [Sx.A "ok"]) <> declared_valid then fail (Printf.sprintf "registration %d: implementation %s, validity spec says %b" at (Sx.show o) declared_valid);
          if not declared_valid then (incr nrej; nontrivial := true)
        end;
        (match register compile h.st ms r with
         | Some st' ->
             let rid = List.length h.accepted in
             h.st <- st'; h.rid_of_attempt <- (at, rid) :: h.rid_of_attempt;
             h.accepted <- (at, rid, ms, r) :: h.accepted; Sx.L [Sx.A "ok"]
         | None -> Sx.L [Sx.A "rej"])
    | "hdr", [at; pairs] ->
        (match List.assoc_opt (Sx.int_of at) h.rid_of_attempt with
         | Some rid ->
             let hc = List.map (fun p -> match Sx.args p with [n; ast; _] -> (str n, re_of ast) | _ -> failwith "pair") (Sx.args pairs) in
             h.st <- set_headers h.st (nat_of_int rid) hc
         | None -> ());
        Sx.L [Sx.A "ok"]
    | "name", [at; nm] ->
        (match List.assoc_opt (Sx.int_of at) h.rid_of_attempt with
         | None -> Sx.L [Sx.A "skip"]
         | Some rid ->
             let nm = ocaml_string_of_str (str nm) in
             if nm = "" || List.mem_assoc nm h.named then Sx.L [Sx.A "panic"]
             else begin
               let (_, _, _, r) = List.find (fun (_, x, _, _) -> x = rid) h.accepted in
               h.named <- (nm, r) :: h.named; Sx.L [Sx.A "ok"]
             end)
    | "url", (nm :: pairs :: _) ->      (* an optional (ctx): built through a request's Context, the same result *)
        (match List.assoc_opt (ocaml_string_of_str (str nm)) h.named with
         | None -> Sx.L [Sx.A "panic"]
         | Some r ->
             let pairs = List.map str (Sx.args pairs) in
             let res = router_url_path r pairs in
             (* C12 spec: all supplied binds substituted at once, others left visible *)
             if prop = "C12" then begin
               let vals = pairs_to_map pairs [] in
               let wo = (match lookup_val vals s_with_optional with Some v -> v = s_true | None -> false) in
               let vals' = if wo then List.filter (fun (k, _) -> k <> s_with_optional) vals else vals in
               let sk = route_skel' r wo in
               if List.for_all (fun (k, _) -> brace_free k) vals' && skel_ok sk then begin
                 let expect = fill vals' sk in
                 (match Sx.tag o, Sx.args o with
                  | "s", [got] -> if str got <> expect then fail (Printf.sprintf "URLPath %s: got %s, simultaneous substitution gives %s" (Sx.show op) (Sx.show o) (hex_of_str expect))
                  | _ -> fail ("URLPath " ^ Sx.show op ^ " -> " ^ Sx.show o));
                 if List.exists (fun (_, v) -> List.exists (fun c -> int_of_n c = 123 || int_of_n c = 125) v) vals' then nontrivial := true
               end
             end;
             Sx.L [Sx.A "s"; sx_str res])
    | "req", (m :: path :: hdrs :: extra) ->
        incr nreq;
        let (o, rebuilt) = (match Sx.tag o, Sx.args o with "rebuilt", [o'; a; b] -> (o', Some (a, b)) | _ -> (o, None)) in
        let mname = ocaml_string_of_str (str m) in
        let mi = method_index mname in
        let path = str path and hdrs = hdrs_of hdrs in
        let mo = (match mi with Some i -> Some (nat_of_int i) | None -> None) in
        let res = serve h.st mo path hdrs in
        let sx = sx_outcome h res in
        let segs = segs_of path in
        (* --- spec judgements on the implementation's answer [o] --- *)
        (match Sx.tag o with
         | "panic" | "chains" | "nondeterministic" | "nohandler" -> fail ("request " ^ Sx.show op ^ " -> " ^ Sx.show o)
         | _ -> ());
        let rs = (match mi with Some i -> routes_for h i | None -> []) in
        let hok rid = hdr_ok h.st hdrs rid in
        let winner = RouteSpec.spec_winner compile rs hok segs in
        let fs = RouteSpec.all_flats compile rs in
        let ncand = List.length (List.concat_map (fun f -> if hok f.RouteSpec.f_rid then RouteSpec.derivs fs f f.RouteSpec.f_kinds Datatypes.O segs [] else []) fs) in
        if ncand >= 2 then (incr nmulti; nontrivial := true);
        (match Sx.tag o, Sx.args o with
         | "found", at :: ps ->
             incr nfound;
             let at = Sx.int_of at in
             (match List.assoc_opt at h.rid_of_attempt with
              | None -> fail "dispatched to a route that was never accepted"
              | Some rid ->
                  (* C01/C09: the documented priority designates this route; its constraints hold *)
                  if (prop = "C01" || prop = "C09" || prop = "C10" || prop = "C07") && winner <> Some (nat_of_int rid) then
                    fail (Printf.sprintf "request %s: implementation chose attempt %d, priority spec designates %s" (Sx.show op) at
                            (match winner with Some w -> string_of_int (attempt_of h (int_of_nat w)) | None -> "not-found"));
                  if not (hok (nat_of_int rid)) then fail "dispatched to a route whose header constraints fail";
                  if prop = "C09" && List.exists (fun (_, r, _, _) -> not (hok (nat_of_int r))) h.accepted then nontrivial := true;
                  (* C02: the delivered values are values the chosen route's pattern admits, decoded once *)
                  if prop = "C02" then begin
                    let (_, _, _, r) = List.find (fun (_, x, _, _) -> x = rid) h.accepted in
                    let obs_ps = List.filter_map (fun p -> match Sx.args p with
                        | [k; v] -> if str k = s_route then None else Some (str k, str v) | _ -> None) ps in
                    let route_ok = List.exists (fun p -> match Sx.args p with [k; v] -> str k = s_route && str v = render_route r | _ -> false) ps in
                    let forms = List.filter (fun f -> f.RouteSpec.f_rid = nat_of_int rid) fs in
                    let ok = List.exists (fun f ->
                      (* a bind named "route" is shadowed by the reserved parameter of that name *)
                      List.exists (fun d -> norm (List.filter (fun (k, _) -> k <> s_route) (List.map (fun (k, v) -> (k, decode1 v)) d)) = norm obs_ps)
                        (adm_params f.RouteSpec.f_kinds segs)) forms in
                    if not (ok && route_ok) then fail (Printf.sprintf "request %s: delivered params %s are not a capture of route %d" (Sx.show op) (Sx.show o) at);
                    if List.exists (fun f -> List.exists (function KRegex _ -> true | _ -> false) f.RouteSpec.f_kinds) forms then nontrivial := true
                  end)
         | "notfound", _ ->
             if (prop = "C01" || prop = "C09" || prop = "C10" || prop = "C07") && winner <> None then
               fail (Printf.sprintf "request %s: not found although the spec designates a route" (Sx.show op))
         | _ -> ());
        (* C10: the answer equals full tree matching (of the model) for the same method and path *)
        if prop = "C10" then begin
          let t = sx_outcome h (serve_tree h.st mo path hdrs) in
          if t <> o then fail (Printf.sprintf "request %s: %s but tree matching gives %s" (Sx.show op) (Sx.show o) (Sx.show t));
          (match mi with Some i -> if table_lookup h.st (nat_of_int i) path <> None then nontrivial := true | None -> ())
        end;
        if prop = "C07" && (mi = None || List.exists (fun c -> int_of_n c >= 128 || int_of_n c < 32) path) then nontrivial := true;
        (* C12: building the URL of the named route from the delivered parameters inverts matching *)
        (match extra, res with
         | [rb], Found (frid, ps) ->
             let name = ocaml_string_of_str (str (List.hd (Sx.args rb))) in
             let (_, _, _, froute) = List.find (fun (_, x, _, _) -> x = int_of_nat frid) h.accepted in
             let build extra_pairs = (match List.assoc_opt name h.named with
               | Some r -> sx_str (router_url_path r (List.concat_map (fun (k, v) -> [k; v]) (List.filter (fun (k, _) -> k <> s_route) ps) @ extra_pairs))
               | None -> Sx.A "panic") in
             let a = build [] and b = build [s_with_optional; s_true] in
             (match rebuilt with
              | Some (oa, ob) ->
                  if not (List.exists (fun c -> int_of_n c = 37) path) && List.assoc_opt name h.named = Some froute
                     && not (List.mem_assoc s_route ps) (* the value of a bind named "route" is not delivered *)
                     && not (List.mem_assoc s_with_optional ps) (* a bind named "withOptional" shares its name with URLPath's switch *) then begin
                    let want = sx_str (c_slash :: join_slash segs) in
                    if oa <> want && ob <> want then fail (Printf.sprintf "request %s: URLPath of the delivered params gives %s / %s, not the request path" (Sx.show op) (Sx.show oa) (Sx.show ob));
                    nontrivial := true
                  end
              | None -> ());
             Sx.L [Sx.A "rebuilt"; sx; a; b]
         | _ -> sx)
    | _ -> failwith ("op: " ^ Sx.show op)) (Sx.args (Sx.field "ops" input)) in
  let cls = Printf.sprintf "routes=%s,reqs=%s" (if List.length h.accepted >= 4 then ">=4" else "<4") (if !nmulti > 0 then "multi-candidate" else "single") in
  ([Sx.L (Sx.A "outs" :: outs_model)], !spec, !nontrivial, cls)
