module List = Stdlib.List
open Conv
open BinNums
open Static

let rec node_of (x : Sx.t) : (coq_N list * node) =
  match Sx.tag x, Sx.args x with
  | "file", [n; id] -> (str n, File (nat_of_int (Sx.int_of id)))
  | "dir", n :: children -> (str n, Dir (List.map node_of children))
  | _ -> failwith ("fs: " ^ Sx.show x)

let eval (input : Sx.t) (obs : Sx.t) : Sx.t list * bool * bool * string =
  let arg name = List.hd (Sx.args (Sx.field name input)) in
  let (_, root) = node_of (arg "fs") in
  let dir = [str (arg "dir")] in
  let index = (match str (arg "index") with [] -> str_of_hex "x696e6465782e68746d6c" | i -> i) in
  let o = { so_prefix = normalize_prefix (str (arg "prefix")); so_index = index; so_etag = bool_of (arg "etag");
            so_fs = (match Sx.field_opt "fsys" input with Some d -> bool_of (List.hd (Sx.args d)) | None -> false) } in
  let m = str (arg "method") and p = str (arg "path") in
  let head = (ocaml_string_of_str m = "HEAD") in
  let hdrs = Sx.L [Sx.A "hdrs"; arg "expires"; arg "cache"; arg "etag"] in
  let show r = (match r with
    | SPass -> Sx.L [Sx.A "pass"; sx_bool false]
    | SRedirect loc -> Sx.L [Sx.A "redirect"; sx_str loc; sx_bool false]
    | SServe (id, _) -> Sx.L [Sx.A "serve"; sx_int (int_of_nat id); hdrs; sx_bool true]   (* with the file's own Last-Modified *)
    | SNotModified _ -> Sx.L [Sx.A "notmodified"]) in
  ignore head;
  let r1 = static_decide root dir o m p false in
  let model = (match r1 with
    | SServe _ when o.so_etag -> [show r1; show (static_decide root dir o m p true)]
    | _ -> [show r1]) in
  (* the property on the implementation's own answer: only GET/HEAD under the prefix at a segment
     boundary are answered; what is served is a regular file of the tree below the directory;
     redirects end with a slash *)
  let inside_ids = [3; 4; 5; 6; 7; 8; 9; 10; 11; 12] in
  let ms = ocaml_string_of_str m in
  let pre = o.so_prefix in
  let boundary = pre = [] || (has_prefix pre p && (match List.filteri (fun i _ -> i >= List.length pre) p with [] -> true | c :: _ -> int_of_n c = 47)) in
  let spec = List.for_all (fun ob -> match Sx.tag ob, Sx.args ob with
    | "pass", [hd] -> not (bool_of hd)                 (* silent: not even a response header *)
    | "serve", id :: _ -> List.mem (Sx.int_of id) inside_ids && (ms = "GET" || ms = "HEAD") && boundary
    | "notmodified", _ -> (ms = "GET" || ms = "HEAD") && boundary
    | "redirect", [loc; leak] ->
        (* the slash-terminated form of the directory: a rooted, clean path (no "//" that a browser reads
           as another host, no ".." component), and nothing of a file in the redirect itself *)
        let l = str loc in
        let comps = Router.split_slash [] l in
        (ms = "GET" || ms = "HEAD") && boundary && not (bool_of leak)
        && (match List.rev l with c :: _ -> int_of_n c = 47 | [] -> false)
        && (match l with a :: b :: _ -> int_of_n a = 47 && int_of_n b <> 47 | [a] -> int_of_n a = 47 | [] -> false)
        && not (List.exists (fun c -> c = str_of_hex "x2e2e") comps)
    | _ -> false) (Sx.args obs) in
  let defdir = (match Sx.field_opt "defdir" input with Some d -> bool_of (List.hd (Sx.args d)) | None -> false) in
  let cls = (if o.so_fs then "http.FS/" else "") ^ (if defdir then "default-directory/" else "") ^ (match r1 with SPass -> "pass" | SRedirect _ -> "redirect" | SServe _ -> "serve" | SNotModified _ -> "notmodified") in
  let traversal = List.exists (fun c -> c = str_of_hex "x2e2e") (Router.split_slash [] p) in
  (model, spec, (match r1 with SPass -> traversal | _ -> true), cls)
