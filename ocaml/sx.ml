module List = Stdlib.List
(* Minimal s-expressions: atoms and lists; one case per line. *)
type t = A of string | L of t list

exception Parse of string

let parse (s : string) : t =
  let n = String.length s in
  let pos = ref 0 in
  let rec skip () = if !pos < n && (s.[!pos] = ' ' || s.[!pos] = '\t' || s.[!pos] = '\n' || s.[!pos] = '\r') then (incr pos; skip ()) in
  let rec item () =
    skip ();
    if !pos >= n then raise (Parse "eof")
    else if s.[!pos] = '(' then begin
      incr pos;
      let acc = ref [] in
      let rec loop () =
        skip ();
        if !pos >= n then raise (Parse "unclosed")
        else if s.[!pos] = ')' then incr pos
        else (acc := item () :: !acc; loop ()) in
      loop (); L (List.rev !acc)
    end else if s.[!pos] = ')' then raise (Parse "unexpected )")
    else begin
      let st = !pos in
      while !pos < n && not (s.[!pos] = ' ' || s.[!pos] = '(' || s.[!pos] = ')' || s.[!pos] = '\n' || s.[!pos] = '\t' || s.[!pos] = '\r') do incr pos done;
      A (String.sub s st (!pos - st))
    end in
  let r = item () in
  skip ();
  if !pos <> n then raise (Parse "trailing") else r

let rec to_buf b = function
  | A a -> Buffer.add_string b a
  | L l -> Buffer.add_char b '(';
      List.iteri (fun i x -> if i > 0 then Buffer.add_char b ' '; to_buf b x) l;
      Buffer.add_char b ')'

let show x = let b = Buffer.create 256 in to_buf b x; Buffer.contents b

(* field access: (tag a b c) *)
let tag = function L (A t :: _) -> t | _ -> raise (Parse "tag")
let args = function L (A _ :: r) -> r | _ -> raise (Parse "args")
let field name = function
  | L l -> (try List.find (function L (A t :: _) when t = name -> true | _ -> false) l
            with Not_found -> raise (Parse ("no field " ^ name)))
  | _ -> raise (Parse "field")
let field_opt name x = try Some (field name x) with Parse _ -> None
let atom = function A a -> a | x -> raise (Parse ("atom expected: " ^ show x))
let list = function L l -> l | x -> raise (Parse ("list expected: " ^ show x))
let int_of x = try int_of_string (atom x) with Failure _ -> raise (Parse ("int expected: " ^ show x))
